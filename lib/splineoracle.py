"""Independent oracle for B-splines, written against the *mathematical* knot vector
(Cox-de Boor recursion, 0/0 := 0), generic over the number type: works on fractions.Fraction
(exact replay) and on symx proxies / z3 terms (symbolic x)."""
from fractions import Fraction as Fr


def math_knots(breaks, degree, periodic):
    """knot vector from break points (independent of pygyro.make_knots)"""
    b = list(breaks)
    p = degree
    if periodic:
        period = b[-1] - b[0]
        left = [b[len(b) - 1 - p + i] - period for i in range(p)]
        right = [b[1 + i] + period for i in range(p)]
    else:
        left = [b[0]] * p
        right = [b[-1]] * p
    return left + b + right


def cell_basis(T, p, cell, x, der=0):
    """values (der=0) or first derivatives (der=1) at x of all B-splines B_{j,p}, j = 0..len(T)-p-2, restricted to
    the knot interval [T[cell], T[cell+1]] (x is assumed inside; pure polynomial evaluation, no branching on x)"""
    n = len(T) - p - 1
    q = p - der
    # degree 0
    B = [1 if j == cell else 0 for j in range(len(T) - 1)]
    for k in range(1, q + 1):
        nB = []
        for j in range(len(T) - 1 - k):
            acc = 0
            d1 = T[j + k] - T[j]
            if _nz(d1) and not _iszero(B[j]):
                acc = acc + (x - T[j]) / d1 * B[j]
            d2 = T[j + k + 1] - T[j + 1]
            if _nz(d2) and not _iszero(B[j + 1]):
                acc = acc + (T[j + k + 1] - x) / d2 * B[j + 1]
            nB.append(acc)
        B = nB
    if der == 0:
        return B[:n]
    # derivative: p * ( B_{j,p-1}/(T[j+p]-T[j]) - B_{j+1,p-1}/(T[j+p+1]-T[j+1]) )
    out = []
    for j in range(n):
        acc = 0
        d1 = T[j + p] - T[j]
        if _nz(d1) and not _iszero(B[j]):
            acc = acc + p * B[j] / d1
        d2 = T[j + p + 1] - T[j + 1]
        if _nz(d2) and not _iszero(B[j + 1]):
            acc = acc - p * B[j + 1] / d2
        out.append(acc)
    return out


def _nz(d):
    try:
        return d != 0
    except Exception:
        return True


def _iszero(v):
    return isinstance(v, int) and v == 0


def find_cell_fraction(T, p, x):
    """index i with T[i] <= x < T[i+1] inside the domain [T[p], T[-p-1]]; right end point belongs to the last cell"""
    lo, hi = p, len(T) - p - 2
    if x >= T[hi + 1]:
        return hi
    for i in range(lo, hi + 1):
        if T[i] <= x < T[i + 1]:
            return i
    return lo


def eval_fraction(T, p, coeffs, x, der=0):
    cell = find_cell_fraction(T, p, x)
    B = cell_basis(T, p, cell, x, der)
    return sum((c * b for c, b in zip(coeffs, B) if not _iszero(b)), Fr(0))


def basis_integrals_fraction(T, p, a, b):
    """exact integral over [a,b] of every B_{j,p} (piecewise polynomial integration by Gauss-free antiderivative:
    uses the identity  int_{-inf}^{x} B_{j,p} = (T[j+p+1]-T[j])/(p+1) * sum_{i>=j} B_{i,p+1}(x)  on the knot vector
    extended by one repeated knot at each end -- evaluated independently here by direct polynomial integration)"""
    n = len(T) - p - 1
    out = [Fr(0)] * n
    for cell in range(p, len(T) - p - 1):
        lo, hi = T[cell], T[cell + 1]
        if hi <= lo:
            continue
        lo2, hi2 = max(lo, a), min(hi, b)
        if hi2 <= lo2:
            continue
        # exact integration of a degree-p polynomial by sampling p+1 points and Lagrange integration
        m = p + 1
        xs = [lo2 + (hi2 - lo2) * Fr(i, m - 1) if m > 1 else lo2 for i in range(m)]
        vals = [cell_basis(T, p, cell, xx, 0) for xx in xs]
        w = _newton_cotes_weights(m)
        for j in range(n):
            s = Fr(0)
            for i in range(m):
                v = vals[i][j]
                if not _iszero(v):
                    s += w[i] * v
            out[j] += s * (hi2 - lo2)
    return out


_NC = {}


def _newton_cotes_weights(m):
    """weights w_i (sum 1) exact for polynomials of degree m-1 on equispaced nodes of [0,1]"""
    if m in _NC:
        return _NC[m]
    if m == 1:
        _NC[m] = [Fr(1)]
        return _NC[m]
    xs = [Fr(i, m - 1) for i in range(m)]
    # solve Vandermonde^T w = moments
    A = [[xs[i] ** k for i in range(m)] for k in range(m)]
    rhs = [Fr(1, k + 1) for k in range(m)]
    # gaussian elimination
    M = [row[:] + [r] for row, r in zip(A, rhs)]
    for c in range(m):
        piv = next(r for r in range(c, m) if M[r][c] != 0)
        M[c], M[piv] = M[piv], M[c]
        pv = M[c][c]
        M[c] = [v / pv for v in M[c]]
        for r in range(m):
            if r != c and M[r][c] != 0:
                f = M[r][c]
                M[r] = [v - f * u for v, u in zip(M[r], M[c])]
    _NC[m] = [M[i][m] for i in range(m)]
    return _NC[m]


def collocation(T, p, periodic, ncells, pts):
    """A[i][j] = B_j(pts[i]) for the (wrapped, if periodic) basis functions -- independent of pygyro"""
    n = ncells if periodic else ncells + p
    A = []
    for x in pts:
        cell = find_cell_fraction(T, p, x)
        B = cell_basis(T, p, cell, x, 0)
        A.append([Fr(B[j]) + (Fr(B[j + ncells]) if periodic and j < p else 0) for j in range(n)])
    return A


def invert(A):
    n = len(A)
    M = [[Fr(A[i][j]) for j in range(n)] + [Fr(int(i == j)) for j in range(n)] for i in range(n)]
    for c in range(n):
        piv = next(r for r in range(c, n) if M[r][c] != 0)
        M[c], M[piv] = M[piv], M[c]
        pv = M[c][c]
        M[c] = [v / pv for v in M[c]]
        for r in range(n):
            if r != c and M[r][c] != 0:
                f = M[r][c]
                M[r] = [v - f * u for v, u in zip(M[r], M[c])]
    return [row[n:] for row in M]


def interpolant_coeffs(T, p, periodic, ncells, pts, data):
    """coefficients (full length ncells+p, wrapped if periodic) of the spline interpolating `data` at `pts`;
    data may be proxies (linear forms are built with +,*)"""
    Ainv = invert(collocation(T, p, periodic, ncells, pts))
    n = len(Ainv)
    c = []
    for i in range(n):
        acc = 0
        for j in range(n):
            if Ainv[i][j] != 0:
                acc = acc + data[j] * Ainv[i][j]
        c.append(acc)
    if periodic:
        c = c + c[:p]
    return c
