"""symx -- concolic execution of unmodified Python functions over z3 terms.

Proxy numbers (SInt / SReal / SBool) overload Python's operators; CPython interprets
the real pygyro code, every data-dependent branch asks the solver which sides are
feasible and the exploration re-executes the function once per feasible path
(depth first, recorded decision prefix).

Number semantics
    SInt   mathematical Int, or (when symx.BVW is set) a signed bit-vector of that width
    SReal  exact real (z3 Real).  Concrete values are carried as fractions.Fraction and
           never rounded.  A Python float that meets a proxy is *rationalised*: a/b with
           b <= 10**6 if that rational rounds to exactly this double, else the double's
           exact value.
Only `Exception` may be caught by code under analysis; engine control flow (Abort) is a
BaseException.
"""
import math
import time
_now = time.perf_counter       # captured at import: code under analysis may have time.time replaced by a symbolic clock
from fractions import Fraction as Fr

import numpy as _np
import z3

BVW = None          # None -> Int back end; integer -> signed bit-vectors of that width
EAGER_FLOOR = True
DIV_ZERO = 'raise'     # 'raise': ZeroDivisionError on the zero branch (python scalars); 'poison': numpy array semantics


CROSS_DIR = None        # directory for the sample of queries that is re-decided by other solvers (thorough tier)
CROSS_EVERY = 97
_CROSS_N = [0]


def _cross_dump(solver, extra, verdict):
    """deterministic sample (every CROSS_EVERY-th decided query of this process, at most 40) written as SMT-LIB2"""
    import os
    _CROSS_N[0] += 1
    if _CROSS_N[0] % CROSS_EVERY != 0 or _CROSS_N[0] > 40 * CROSS_EVERY:
        return
    try:
        s2 = z3.Solver()
        for a in solver.assertions():
            s2.add(a)
        for e in extra:
            s2.add(e)
        txt = s2.to_smt2()
        path = os.path.join(CROSS_DIR, 'q_%d_%d.smt2' % (os.getpid(), _CROSS_N[0]))
        with open(path, 'w') as f:
            f.write('; expected: %s\n' % verdict)
            f.write(txt)
    except Exception:
        pass


class Abort(BaseException):
    """path abandoned by the engine (infeasible, solver unknown, split too wide)"""

    def __init__(self, why, inconclusive=True):
        BaseException.__init__(self, why)
        self.why = why
        self.inconclusive = inconclusive


def set_bv(width):
    global BVW
    BVW = width


def ival(v):
    return z3.IntVal(int(v)) if BVW is None else z3.BitVecVal(int(v), BVW)


def mkint(name):
    return z3.Int(name) if BVW is None else z3.BitVec(name, BVW)


def isort():
    return z3.IntSort() if BVW is None else z3.BitVecSort(BVW)


def rationalise(x):
    f = Fr(x)
    g = f.limit_denominator(10 ** 6)
    if float(g) == x:
        return g
    return f


# --------------------------------------------------------------------------- context
class Stats:
    def __init__(self):
        self.queries = 0
        self.sat = 0
        self.unsat = 0
        self.unknown = 0
        self.solver_s = 0.0
        self.paths = 0
        self.aborted = 0

    def add(self, o):
        for k in self.__dict__:
            setattr(self, k, getattr(self, k) + getattr(o, k))

    def as_dict(self):
        d = dict(self.__dict__)
        d['solver_s'] = round(d['solver_s'], 3)
        return d


GLOBAL = Stats()


class Ctx:
    cur = None

    def __init__(self, timeout_ms=10000, index_cap=64):
        self.solver = z3.Solver()
        self.solver.set('timeout', timeout_ms)
        self.timeout_ms = timeout_ms
        self.decisions = []
        self.pos = 0
        self.index_cap = index_cap
        self.fresh = 0
        self.stats = Stats()
        self.notes = []
        self.uf = {}
        self.oneshot = False
        self._last = None

    # -- solver access
    def check(self, *extra):
        t = _now()
        if self.oneshot:
            # a fresh non-incremental solver per query: z3 then applies its one-shot tactic pipeline (for QF_FP:
            # bit-blasting + SAT), far faster than the incremental core on floating-point terms
            s1 = z3.Then('simplify', 'qfnra-nlsat').solver() if self.oneshot == 'nlsat' else z3.Solver()
            s1.set('timeout', self.timeout_ms)
            s1.add(self.solver.assertions())
            s1.add(*extra)
            r = str(s1.check())
            self._last = s1
        else:
            r = str(self.solver.check(*extra))
            self._last = self.solver
        dt = _now() - t
        if CROSS_DIR is not None and r in ('sat', 'unsat'):
            _cross_dump(self.solver, extra, r)
        for s in (self.stats, GLOBAL):
            s.solver_s += dt
            s.queries += 1
            setattr(s, r, getattr(s, r) + 1)
        return r

    def model(self):
        return (self._last or self.solver).model()

    def assume(self, c):
        if isinstance(c, SBool):
            c = c.t
        if c is True:
            return
        if c is False:
            c = z3.BoolVal(False)
        self.solver.add(c)

    def fresh_name(self, base):
        self.fresh += 1
        return '%s!%d' % (base, self.fresh)

    # -- decisions
    def fork_bool(self, cond, cand=None):
        cond = z3.simplify(cond)
        if z3.is_true(cond):
            return True
        if z3.is_false(cond):
            return False
        if self.pos < len(self.decisions):
            d = self.decisions[self.pos]
            self.pos += 1
            self.solver.add(cond if d['choice'] else z3.Not(cond))
            return d['choice']
        rt = self.check(cond)
        rf = self.check(z3.Not(cond))
        if rt == 'unknown' or rf == 'unknown':
            raise Abort('solver unknown at branch')
        can_t = rt == 'sat'
        can_f = rf == 'sat'
        if not can_t and not can_f:
            raise Abort('infeasible path', inconclusive=False)
        choice = can_t
        self.decisions.append(dict(choice=choice, forced=not (can_t and can_f), cand=cand))
        self.pos += 1
        self.solver.add(cond if choice else z3.Not(cond))
        return choice

    def fork_index(self, t):
        """concretise an integer term by case split in increasing order of value"""
        n = 0
        while True:
            n += 1
            if n > self.index_cap:
                raise Abort('index split wider than %d' % self.index_cap)
            if self.pos < len(self.decisions):
                v = self.decisions[self.pos]['cand']
            else:
                v = self._min_value(t)
            if self.fork_bool(t == _const_like(t, v), cand=v):
                return v

    def _val(self, v):
        return v.as_signed_long() if z3.is_bv_value(v) else v.as_long()

    def _min_value(self, t):
        r = self.check()
        if r != 'sat':
            raise Abort('index: ' + r, inconclusive=(r == 'unknown'))
        hi = self._val(self.model().eval(t, model_completion=True))
        while True:
            r = self.check(t < _const_like(t, hi))
            if r == 'unknown':
                raise Abort('index: unknown')
            if r == 'unsat':
                return hi
            hi = self._val(self.model().eval(t, model_completion=True))


def run_path(fn, decisions, timeout_ms=10000, index_cap=64, setup=None):
    """re-execute exactly the path described by a complete decision record"""
    ctx = Ctx(timeout_ms, index_cap)
    ctx.decisions = [dict(d) for d in decisions]
    Ctx.cur = ctx
    try:
        if setup is not None:
            setup(ctx)
        res = ('ok', fn(ctx))
    except Abort as a:
        res = ('abort', a)
    except Exception as e:
        res = ('exc', e)
    ctx.stats.paths += 1
    GLOBAL.paths += 1
    return ctx, res


def _const_like(t, v):
    return z3.BitVecVal(int(v), t.size()) if z3.is_bv(t) else z3.IntVal(int(v))


def explore(fn, timeout_ms=10000, maxpaths=100000, index_cap=64, setup=None):
    """run fn(ctx) once per feasible path; yields (ctx, (kind, value))
    kind in 'ok' (return value), 'exc' (Exception instance), 'abort' (Abort instance)"""
    decisions = []
    npaths = 0
    while True:
        ctx = Ctx(timeout_ms, index_cap)
        ctx.decisions = list(decisions)
        Ctx.cur = ctx
        try:
            if setup is not None:
                setup(ctx)
            res = ('ok', fn(ctx))
        except Abort as a:
            res = ('abort', a)
            ctx.stats.aborted += 1
            GLOBAL.aborted += 1
        except Exception as e:           # exceptions are results (several properties need them)
            res = ('exc', e)
        ctx.stats.paths += 1
        GLOBAL.paths += 1
        npaths += 1
        yield ctx, res
        decisions = list(ctx.decisions)
        while decisions and (decisions[-1]['forced'] or decisions[-1]['choice'] is False):
            decisions.pop()
        if not decisions:
            return
        d = dict(decisions[-1])
        d['choice'] = False
        decisions[-1] = d
        if npaths >= maxpaths:
            raise RuntimeError('path budget of %d exceeded' % maxpaths)


# --------------------------------------------------------------------------- proxies
class Sym:
    __slots__ = ()


class SBool(Sym):
    __slots__ = ('t',)

    def __init__(self, t):
        self.t = t

    def __bool__(self):
        t = z3.simplify(self.t)
        if z3.is_true(t):
            return True
        if z3.is_false(t):
            return False
        if Ctx.cur is None:
            raise RuntimeError('symbolic branch outside exploration')
        return Ctx.cur.fork_bool(t)

    def __and__(self, o): return mkbool(z3.And(self.t, zb(o)))
    __rand__ = __and__
    def __or__(self, o): return mkbool(z3.Or(self.t, zb(o)))
    __ror__ = __or__
    def __invert__(self): return mkbool(z3.Not(self.t))
    def __eq__(self, o): return mkbool(self.t == zb(o))
    def __ne__(self, o): return mkbool(self.t != zb(o))
    __hash__ = None

    def __repr__(self):
        return 'SBool(%s)' % self.t


def mkbool(t):
    if z3.is_true(t):
        return True
    if z3.is_false(t):
        return False
    return SBool(t)


def zb(x):
    if isinstance(x, SBool):
        return x.t
    if z3.is_expr(x):
        return x
    return z3.BoolVal(bool(x))


def _isconc(x):
    return not isinstance(x, Sym)


def _cval(x):
    """exact python value of a concrete operand: int or Fraction"""
    if isinstance(x, (bool, _np.bool_)):
        return int(x)
    if isinstance(x, (int, _np.integer)):
        return int(x)
    if isinstance(x, Fr):
        return x
    if isinstance(x, (float, _np.floating)):
        x = float(x)
        if math.isinf(x) or math.isnan(x):
            raise Abort('non-finite float met a proxy')
        return rationalise(x)
    raise TypeError('cannot mix proxy with %r' % type(x))


def zt(x):
    """z3 term of any operand"""
    if isinstance(x, SNum):
        return x.term()
    if isinstance(x, SBool):
        return z3.If(x.t, ival(1), ival(0))
    v = _cval(x)
    if isinstance(v, int):
        return ival(v)
    return z3.RealVal(v)


def _isreal_t(t):
    return z3.is_real(t)


def toreal(t):
    if z3.is_int(t):
        return z3.ToReal(t)
    if z3.is_bv(t):
        return z3.ToReal(z3.BV2Int(t, True))
    return t


def _pair(a, b):
    ta, tb = zt(a), zt(b)
    if z3.is_real(ta) != z3.is_real(tb):
        ta, tb = toreal(ta), toreal(tb)
    return ta, tb


def wrap(t):
    """z3 term -> proxy or python number (ground terms are folded)"""
    if z3.is_bool(t):
        t = z3.simplify(t)
        return mkbool(t)
    if z3.is_int_value(t):
        return t.as_long()
    if z3.is_bv_value(t):
        return t.as_signed_long()
    if z3.is_rational_value(t):
        return SReal(None, Fr(t.numerator_as_long(), t.denominator_as_long()))
    if z3.is_real(t):
        return SReal(t)
    return SInt(t)


def swrap(t):
    return wrap(z3.simplify(t))


def _defer(fn):
    def w(self, o):
        if isinstance(o, (_np.ndarray, SComplex)):
            return NotImplemented
        return fn(self, o)
    w.__name__ = fn.__name__
    return w


def _zero_check(o):
    if isinstance(o, Sym):
        if bool(o == 0):
            raise ZeroDivisionError('division by zero')
    elif o == 0:
        raise ZeroDivisionError('division by zero')


def _isint_operand(x):
    if isinstance(x, SInt):
        return True
    if isinstance(x, SReal):
        return False
    return isinstance(_cval(x), int)


class SNum(Sym):
    """common arithmetic; a value is either concrete (self.c: Fraction) or a term"""
    __slots__ = ('t', 'c')
    __hash__ = None

    def term(self):
        if self.t is None:
            self.t = z3.RealVal(self.c)
        return self.t

    # generic binary helper
    def _bin(self, o, op, swap=False):
        if isinstance(o, SPoison):
            return o
        if isinstance(o, complex):
            if o.imag == 0:
                o = o.real
            elif op is _OPS['mul'] and self.c is not None and self.c == 0:
                return 0          # 1j * 0: the imaginary part of a real-valued computation
            else:
                me = SComplex(self, 0)
                if op is _OPS['mul']:
                    return me * o
                if op is _OPS['add']:
                    return me + o
                if op is _OPS['sub']:
                    return (o - me) if swap else (me - o)
                raise Abort('complex arithmetic on a symbolic value')
        a, b = (o, self) if swap else (self, o)
        ca = a.c if isinstance(a, SNum) else (_cval(a) if _isconc(a) else None)
        cb = b.c if isinstance(b, SNum) else (_cval(b) if _isconc(b) else None)
        if ca is not None and cb is not None:
            r = op(ca, cb)
            if isinstance(r, int) and not (isinstance(a, SReal) or isinstance(b, SReal)):
                return r
            return SReal(None, Fr(r))
        # cheap identities keep terms small
        if op is _OPS['mul']:
            if ca is not None and ca == 0 or cb is not None and cb == 0:
                return 0 if (_isint_operand(a) and _isint_operand(b)) else SReal(None, Fr(0))
            if ca is not None and ca == 1 and isinstance(b, SNum) and (isinstance(b, SReal) or isinstance(ca, int)):
                return b
            if cb is not None and cb == 1 and isinstance(a, SNum) and (isinstance(a, SReal) or isinstance(cb, int)):
                return a
        if op is _OPS['add']:
            if ca is not None and ca == 0 and isinstance(b, SNum) and (isinstance(b, SReal) or isinstance(ca, int)):
                return b
            if cb is not None and cb == 0 and isinstance(a, SNum) and (isinstance(a, SReal) or isinstance(cb, int)):
                return a
        if op is _OPS['sub']:
            if cb is not None and cb == 0 and isinstance(a, SNum) and (isinstance(a, SReal) or isinstance(cb, int)):
                return a
        ta, tb = _pair(a, b)
        return wrap(op(ta, tb))

    @_defer
    def __add__(self, o): return self._bin(o, _OPS['add'])
    @_defer
    def __radd__(self, o): return self._bin(o, _OPS['add'], True)
    @_defer
    def __sub__(self, o): return self._bin(o, _OPS['sub'])
    @_defer
    def __rsub__(self, o): return self._bin(o, _OPS['sub'], True)
    @_defer
    def __mul__(self, o): return self._bin(o, _OPS['mul'])
    @_defer
    def __rmul__(self, o): return self._bin(o, _OPS['mul'], True)

    def __neg__(self):
        if self.c is not None:
            return SReal(None, -self.c)
        return wrap(-self.t)

    def __pos__(self): return self

    def __bool__(self):
        # python truthiness of a number: x != 0 (forks when symbolic)
        if self.c is not None:
            return self.c != 0
        return bool(self != 0)

    # true division: always real
    @_defer
    def __truediv__(self, o): return _truediv(self, o)
    @_defer
    def __rtruediv__(self, o): return _truediv(o, self)
    @_defer
    def __floordiv__(self, o): return _floordiv(self, o)
    @_defer
    def __rfloordiv__(self, o): return _floordiv(o, self)
    @_defer
    def __mod__(self, o): return _pymod(self, o)
    @_defer
    def __rmod__(self, o): return _pymod(o, self)

    def _cmp(self, o, op):
        ca = self.c
        cb = o.c if isinstance(o, SNum) else (_cval(o) if _isconc(o) else None)
        if ca is not None and cb is not None:
            return bool(op(ca, cb))
        ta, tb = _pair(self, o)
        return mkbool(z3.simplify(op(ta, tb)))

    @_defer
    def __lt__(self, o): return self._cmp(o, _OPS['lt'])
    @_defer
    def __le__(self, o): return self._cmp(o, _OPS['le'])
    @_defer
    def __gt__(self, o): return self._cmp(o, _OPS['gt'])
    @_defer
    def __ge__(self, o): return self._cmp(o, _OPS['ge'])

    def __eq__(self, o):
        if isinstance(o, _np.ndarray):
            return NotImplemented
        if o is None or isinstance(o, str):
            return False
        return self._cmp(o, _OPS['eq'])

    def __ne__(self, o):
        if isinstance(o, _np.ndarray):
            return NotImplemented
        if o is None or isinstance(o, str):
            return True
        return self._cmp(o, _OPS['ne'])

    def __pow__(self, e):
        if isinstance(e, SNum) and e.c is not None and e.c.denominator == 1:
            e = int(e.c)
        if isinstance(e, (float, _np.floating)) and float(e).is_integer():
            e = int(e)
        if not isinstance(e, (int, _np.integer)):
            raise Abort('symbolic / fractional exponent')
        e = int(e)
        if e < 0:
            return 1 / (self ** (-e))
        r = 1
        for _ in range(e):
            r = r * self
        return r

    def __rpow__(self, b):
        raise Abort('proxy as exponent')

    def __abs__(self):
        if self.c is not None:
            return SReal(None, abs(self.c))
        return wrap(z3.If(self.t >= 0, self.t, -self.t))

    def conjugate(self): return self
    conj = conjugate

    @property
    def real(self): return self

    @property
    def imag(self): return 0

    def __format__(self, spec): return '<sym>'
    def __str__(self):
        if self.c is not None:
            return '<%s>' % self.c
        t = str(self.t)
        return '<sym:%s>' % (t if len(t) < 40 else t[:37].replace('\n', ' ') + '...')
    __repr__ = __str__


import operator as _op
_OPS = dict(add=_op.add, sub=_op.sub, mul=_op.mul, lt=_op.lt, le=_op.le, gt=_op.gt, ge=_op.ge,
            eq=_op.eq, ne=_op.ne)


def _concrete_of(x):
    if isinstance(x, SNum):
        return x.c
    if isinstance(x, SBool):
        return None
    return _cval(x)


class SComplex(Sym):
    """complex value as a pair of exact-real parts (only what the diagnostics need: + - * conj real imag)"""
    __slots__ = ('re', 'im')
    __hash__ = None

    def __init__(self, re, im):
        self.re, self.im = re, im

    @staticmethod
    def _parts(o):
        if isinstance(o, SComplex):
            return o.re, o.im
        if isinstance(o, complex):
            return o.real, o.imag
        return o, 0

    def __add__(self, o):
        if isinstance(o, _np.ndarray):
            return NotImplemented
        a, b = self._parts(o)
        return SComplex(self.re + a, self.im + b)
    __radd__ = __add__

    def __sub__(self, o):
        if isinstance(o, _np.ndarray):
            return NotImplemented
        a, b = self._parts(o)
        return SComplex(self.re - a, self.im - b)

    def __rsub__(self, o):
        a, b = self._parts(o)
        return SComplex(a - self.re, b - self.im)

    def __mul__(self, o):
        if isinstance(o, _np.ndarray):
            return NotImplemented
        a, b = self._parts(o)
        return SComplex(self.re * a - self.im * b, self.re * b + self.im * a)
    __rmul__ = __mul__

    def __neg__(self):
        return SComplex(-self.re, -self.im)

    def conjugate(self):
        return SComplex(self.re, -self.im)
    conj = conjugate

    @property
    def real(self):
        return self.re

    @property
    def imag(self):
        return self.im


class SPoison(Sym):
    """result of a division by zero under numpy semantics (inf/nan): propagates through arithmetic, may only be
    discarded (np.where); any other use aborts the path as inconclusive"""
    __slots__ = ()

    def _p(self, *a): return self
    __add__ = __radd__ = __sub__ = __rsub__ = __mul__ = __rmul__ = __truediv__ = __rtruediv__ = __neg__ = __pow__ = _p

    def _bad(self, *a):
        raise Abort('value of a division by zero used')
    __bool__ = __lt__ = __le__ = __gt__ = __ge__ = __eq__ = __ne__ = __float__ = __int__ = __index__ = __abs__ = _bad
    __hash__ = None


POISON = SPoison()


def _truediv(a, b):
    if isinstance(a, SPoison) or isinstance(b, SPoison):
        return POISON
    if DIV_ZERO == 'poison' and isinstance(b, Sym):
        if bool(b == 0):
            return POISON
    else:
        _zero_check(b)
    ca, cb = _concrete_of(a), _concrete_of(b)
    if ca is not None and cb is not None:
        return SReal(None, Fr(ca) / Fr(cb))
    ta, tb = toreal(zt(a)), toreal(zt(b))
    return wrap(ta / tb)


def _floor_term(t):
    """integer floor of a real term as a fresh Int with defining constraints"""
    ctx = Ctx.cur
    t = z3.simplify(t)
    if z3.is_rational_value(t):
        return math.floor(Fr(t.numerator_as_long(), t.denominator_as_long()))
    k = z3.Int(ctx.fresh_name('floor'))
    ctx.assume(z3.And(z3.ToReal(k) <= t, t < z3.ToReal(k) + 1))
    if EAGER_FLOOR:
        # n-way split right away: every use of a floor in pygyro is an index; a concrete value keeps all later
        # terms polynomial (k = m would otherwise have to be eliminated by the solver in every query)
        return ctx.fork_index(k)
    return SInt(k)


def _floordiv(a, b):
    _zero_check(b)
    ca, cb = _concrete_of(a), _concrete_of(b)
    if ca is not None and cb is not None:
        r = ca // cb
        if isinstance(ca, int) and isinstance(cb, int) and not isinstance(a, SReal) and not isinstance(b, SReal):
            return r
        return SReal(None, Fr(r))
    if _isint_operand(a) and _isint_operand(b):
        ta, tb = zt(a), zt(b)
        if BVW is not None:
            return wrap(ta / tb)           # signed division; operands non-negative in all uses (VC'd by callers)
        if cb is not None and cb > 0:
            return wrap(ta / tb)           # z3 div == floor for positive divisor
        # general python floor division
        q = ta / tb
        return wrap(z3.If(tb > 0, q, z3.If(ta % tb == 0, q, (-ta) / (-tb))))
    ta, tb = toreal(zt(a)), toreal(zt(b))
    k = _floor_term(ta / tb)
    return k * SReal(None, Fr(1)) if not isinstance(k, int) else SReal(None, Fr(k))


def _pymod(a, b):
    _zero_check(b)
    ca, cb = _concrete_of(a), _concrete_of(b)
    if ca is not None and cb is not None:
        r = ca % cb
        if isinstance(r, int) and not isinstance(a, SReal) and not isinstance(b, SReal):
            return r
        return SReal(None, Fr(r))
    if _isint_operand(a) and _isint_operand(b):
        ta, tb = zt(a), zt(b)
        if BVW is not None:
            return wrap(z3.SRem(ta, tb))
        if cb is not None and cb > 0:
            return wrap(ta % tb)
        m = ta % tb                        # z3 mod: 0 <= m < |b|
        return wrap(z3.If(tb > 0, m, z3.If(m == 0, m, m + tb)))
    ta, tb = toreal(zt(a)), toreal(zt(b))
    k = _floor_term(ta / tb)
    return a - b * k


class SInt(SNum):
    __slots__ = ()

    def __init__(self, t):
        self.t = t
        self.c = None

    def __index__(self):
        return Ctx.cur.fork_index(self.t)

    def __int__(self):
        return self.__index__()

    def __floor__(self): return self
    def __ceil__(self): return self
    def __round__(self, n=None): return self
    floor = __floor__


class SReal(SNum):
    __slots__ = ()

    def __init__(self, t, c=None):
        self.t = t
        self.c = c

    def __floor__(self):
        if self.c is not None:
            return math.floor(self.c)
        return _floor_term(self.t)
    floor = __floor__

    def __ceil__(self):
        return -((-self).__floor__())

    def __round__(self, n=None):
        if self.c is not None:
            return round(self.c) if n is None else SReal(None, Fr(round(self.c, n)))
        # nearest integer (ties cannot be decided symbolically: floor(x + 1/2))
        return (self + Fr(1, 2)).__floor__()

    def __float__(self):
        if self.c is not None:
            return float(self.c)
        raise Abort('float() of a symbolic real')

    def __int__(self):
        if self.c is not None:
            return int(self.c)
        raise Abort('int() of symbolic real outside shim')

    def sqrt(self):
        if self.c is not None:
            f = self.c
            if f >= 0:
                n, d = math.isqrt(f.numerator), math.isqrt(f.denominator)
                if n * n == f.numerator and d * d == f.denominator:
                    return SReal(None, Fr(n, d))
        return uf('sqrt', self)

    def exp(self): return uf('exp', self)
    def tanh(self): return uf('tanh', self)
    def cos(self): return uf('cos', self)
    def sin(self): return uf('sin', self)
    def log(self): return uf('log', self)


_UF = {}


def uf(name, *args):
    """uninterpreted real function application"""
    f = _UF.get((name, len(args)))
    if f is None:
        f = z3.Function(name, *([z3.RealSort()] * (len(args) + 1)))
        _UF[(name, len(args))] = f
    targs = [toreal(zt(a)) for a in args]
    t = f(*targs)
    ctx = Ctx.cur
    if ctx is not None:
        key = (name, t.get_id())
        if key not in ctx.uf:
            ctx.uf[key] = True
            # range facts of the real functions (part of the stub's contract)
            if name == 'exp':
                ctx.assume(t > 0)
            elif name == 'sqrt':
                ctx.assume(z3.And(t >= 0, z3.Implies(targs[0] > 0, t > 0)))
            elif name == 'tanh':
                ctx.assume(z3.And(t > -1, t < 1))
            elif name in ('cos', 'sin'):
                ctx.assume(z3.And(t >= -1, t <= 1))
    return SReal(t)


def K(v):
    """exact constant proxy"""
    if isinstance(v, Sym):
        return v
    if isinstance(v, (float, _np.floating)):
        return SReal(None, rationalise(float(v)))
    return SReal(None, Fr(v))


def Kexact(v):
    """constant proxy holding the exact value of a double (no rationalisation)"""
    return SReal(None, Fr(v))


def real(name):
    return SReal(z3.Real(name))


def integer(name):
    return SInt(mkint(name))


def symint(x):
    """python int(x): truncation toward zero"""
    if isinstance(x, SReal):
        if x.c is not None:
            return int(x.c)
        neg = bool(x < 0)
        if neg:
            k = (-x).__floor__()
            return -k
        return x.__floor__()
    if isinstance(x, SInt):
        return x
    return int(x)


def symfloat(x):
    if isinstance(x, Sym):
        return x * K(1) if isinstance(x, SInt) else x
    return float(x)


def fval(p):
    """Fraction value of a concrete proxy / number"""
    if isinstance(p, SNum):
        if p.c is not None:
            return p.c
        t = z3.simplify(p.t)
        if z3.is_int_value(t):
            return Fr(t.as_long())
        if z3.is_rational_value(t):
            return Fr(t.numerator_as_long(), t.denominator_as_long())
        raise ValueError('not concrete: %s' % t)
    return Fr(_cval(p))


def is_concrete(p):
    if isinstance(p, SNum):
        return p.c is not None
    return not isinstance(p, Sym)


def ite(c, a, b):
    """non-forking conditional"""
    if isinstance(a, SPoison) or isinstance(b, SPoison):
        # the poisoned side must be the one the path excludes
        return a if bool(c) else b
    if isinstance(c, SBool):
        t = z3.simplify(c.t)
        if z3.is_true(t):
            return a
        if z3.is_false(t):
            return b
        ta, tb = _pair(a, b)
        return wrap(z3.If(t, ta, tb))
    return a if c else b


def model_value(m, x):
    """python value (int / Fraction) of operand x in model m"""
    if not isinstance(x, Sym):
        return _cval(x)
    if isinstance(x, SNum) and x.c is not None:
        return x.c
    v = m.eval(zt(x), model_completion=True)
    if z3.is_int_value(v):
        return v.as_long()
    if z3.is_bv_value(v):
        return v.as_signed_long()
    if z3.is_rational_value(v):
        return Fr(v.numerator_as_long(), v.denominator_as_long())
    if z3.is_algebraic_value(v):
        a = v.approx(20)
        return Fr(a.numerator_as_long(), a.denominator_as_long())
    raise ValueError('no value for %s' % v)


def nra_solver(assertions, timeout_ms=20000):
    """solver for non-linear real queries (see DESIGN 2.1)"""
    s = z3.Then('simplify', 'propagate-values', 'solve-eqs', 'simplify', 'qfnra-nlsat').solver()
    s.set('timeout', timeout_ms)
    for a in assertions:
        s.add(a)
    return s


def lin_degree(t, names, memo=None):
    """degree (0 or 1) of term t in the variables `names` (set of z3 const names) if t is syntactically affine in
    them (never multiplied together, never in a denominator, condition or uninterpreted argument); None otherwise"""
    if memo is None:
        memo = {}
    key = t.get_id()
    if key in memo:
        return memo[key]
    k = t.decl().kind()
    if z3.is_const(t):
        r = 1 if (k == z3.Z3_OP_UNINTERPRETED and t.decl().name() in names) else 0
    else:
        ds = [lin_degree(c, names, memo) for c in t.children()]
        if any(d is None for d in ds):
            r = None
        elif k in (z3.Z3_OP_ADD, z3.Z3_OP_SUB, z3.Z3_OP_UMINUS, z3.Z3_OP_TO_REAL):
            r = max(ds)
        elif k == z3.Z3_OP_MUL:
            r = sum(ds)
            if r > 1:
                r = None
        elif k == z3.Z3_OP_DIV:
            r = ds[0] if ds[1] == 0 else None
        elif k == z3.Z3_OP_ITE:
            r = max(ds[1], ds[2]) if ds[0] == 0 else None
        else:
            r = 0 if all(d == 0 for d in ds) else None
    memo[key] = r
    return r


def coefficient_terms(t, cvars):
    """for t affine in cvars: dict var-name -> coefficient term, plus '' -> constant term"""
    zero = [(c, z3.RealVal(0)) for c in cvars]
    const = z3.simplify(z3.substitute(t, *zero))
    out = {'': const}
    for i, c in enumerate(cvars):
        sub = [(v, z3.RealVal(1 if j == i else 0)) for j, v in enumerate(cvars)]
        out[c.decl().name()] = z3.simplify(z3.substitute(t, *sub) - const)
    return out


def abstract_nonlinear(t, cache):
    """over-approximation for deciding identities between linear combinations of the same non-linear atoms:
    every (outermost) ITE node, power and product of >= 2 non-numeral factors is replaced by a fresh real constant
    (one per structurally distinct node).  `valid after abstraction` implies `valid`."""
    pairs = {}
    seen = set()

    def visit(u):
        key = u.get_id()
        if key in seen:
            return
        seen.add(key)
        if z3.is_const(u) or z3.is_rational_value(u) or z3.is_int_value(u):
            return
        k = u.decl().kind()
        nonnum = sum(0 if (z3.is_rational_value(c) or z3.is_int_value(c)) else 1 for c in u.children())
        if (k == z3.Z3_OP_ITE and not z3.is_bool(u)) or (k == z3.Z3_OP_MUL and nonnum >= 2) or k == z3.Z3_OP_POWER \
                or (k == z3.Z3_OP_DIV and not (z3.is_rational_value(u.arg(1)) or z3.is_int_value(u.arg(1)))):
            sk = ('atom', key)
            if sk not in cache:
                cache[sk] = z3.Real('atom!%d' % len(cache)) if z3.is_real(u) else z3.Int('atom!%d' % len(cache))
            pairs[key] = (u, cache[sk])
            return
        for c in u.children():
            visit(c)
    visit(t)
    if not pairs:
        return t
    return z3.substitute(t, *pairs.values())
