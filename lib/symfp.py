"""Bit-precise binary64 proxies (QF_FP) for the few kernels whose property depends on IEEE-754 rounding.

An SF wraps a z3 FloatingPoint(11, 53) term; + - * / round to nearest even like CPython floats, comparisons
return symx.SBool so that branches fork through the running symx.Ctx.  fp_int stands in for the builtin int()
inside the analysed module: truncation toward zero, kept as an integral binary64 value (exact for |v| < 2^53, which
the callers assume and state)."""
import numpy as np
import z3

from lib import symx

F64 = z3.Float64()
RNE = z3.RNE()


def lift(v):
    if isinstance(v, SF):
        return v.t
    if isinstance(v, (bool, np.bool_)):
        raise TypeError('bool in binary64 arithmetic')
    if isinstance(v, (int, np.integer)):
        if abs(int(v)) >= 2 ** 53:
            raise OverflowError('integer outside the exact binary64 range')
        return z3.FPVal(float(int(v)), F64)
    if isinstance(v, (float, np.floating)):
        return z3.FPVal(float(v), F64)
    raise TypeError('cannot lift %r to binary64' % type(v))


class SF(symx.Sym):
    __slots__ = ('t',)

    def __init__(self, t):
        self.t = t

    def __add__(self, o): return SF(z3.fpAdd(RNE, self.t, lift(o)))
    def __radd__(self, o): return SF(z3.fpAdd(RNE, lift(o), self.t))
    def __sub__(self, o): return SF(z3.fpSub(RNE, self.t, lift(o)))
    def __rsub__(self, o): return SF(z3.fpSub(RNE, lift(o), self.t))
    def __mul__(self, o): return SF(z3.fpMul(RNE, self.t, lift(o)))
    def __rmul__(self, o): return SF(z3.fpMul(RNE, lift(o), self.t))
    def __truediv__(self, o): return SF(z3.fpDiv(RNE, self.t, lift(o)))
    def __rtruediv__(self, o): return SF(z3.fpDiv(RNE, lift(o), self.t))
    def __neg__(self): return SF(z3.fpNeg(self.t))
    def __pos__(self): return self
    def __abs__(self): return SF(z3.fpAbs(self.t))
    def __lt__(self, o): return symx.mkbool(z3.fpLT(self.t, lift(o)))
    def __le__(self, o): return symx.mkbool(z3.fpLEQ(self.t, lift(o)))
    def __gt__(self, o): return symx.mkbool(z3.fpGT(self.t, lift(o)))
    def __ge__(self, o): return symx.mkbool(z3.fpGEQ(self.t, lift(o)))
    def __eq__(self, o): return symx.mkbool(z3.fpEQ(self.t, lift(o)))
    def __ne__(self, o): return symx.mkbool(z3.Not(z3.fpEQ(self.t, lift(o))))
    __hash__ = None

    def __int__(self):
        raise symx.Abort('int() of a symbolic binary64 outside the shim')

    def __float__(self):
        raise symx.Abort('float() of a symbolic binary64')

    def __repr__(self):
        return '<fp64 %s>' % str(self.t)[:60]


def fp_int(x, *a):
    """stand-in for int(): truncation toward zero, result kept as an integral binary64"""
    if isinstance(x, SF):
        return SF(z3.fpRoundToIntegral(z3.RTZ(), x.t))
    return int(x, *a)


def var(name):
    return SF(z3.FP(name, F64))


def model_float(m, x):
    """python float of a binary64 term in model m"""
    v = m.eval(x.t if isinstance(x, SF) else x, model_completion=True)
    if z3.is_fp(v) and (v.isNaN()):
        return float('nan')
    if v.isInf():
        return float('-inf') if v.isNegative() else float('inf')
    bv = m.eval(z3.fpToIEEEBV(v), model_completion=True)
    import struct
    return struct.unpack('<d', struct.pack('<Q', bv.as_long()))[0]


# --------------------------------------------------------------------------- rounding-error abstraction (standard model)
U53 = z3.RealVal(1) / (2 ** 53)


def _pow2(v):
    try:
        f = float(v)
    except Exception:
        return False
    if f == 0:
        return False
    m, _ = np.frexp(abs(f))
    return m == 0.5


class SRd(symx.Sym):
    """binary64 value over-approximated in real arithmetic: every + - * / returns exact*(1+d) with a fresh |d| <= 2^-53
    (standard model of rounding to nearest; sound for results in the normal range, and for add/sub also in the subnormal
    range, where they are exact).  Multiplication / division by a power of two and adding zero are exact.  A property proved
    for all d holds for the doubles; a counter-model is only a candidate and must be witnessed in binary64 (class SF)."""
    __slots__ = ('t',)

    def __init__(self, t):
        self.t = t

    @staticmethod
    def _lift(v):
        if isinstance(v, SRd):
            return v.t, False
        if isinstance(v, (bool, np.bool_)):
            raise TypeError('bool in arithmetic')
        if isinstance(v, (int, np.integer)):
            return z3.RealVal(int(v)), int(v) == 0
        if isinstance(v, (float, np.floating)):
            from fractions import Fraction
            return z3.RealVal(str(Fraction(float(v)))), float(v) == 0.0
        raise TypeError('cannot lift %r' % type(v))

    # magnitude bound B of the values whose rounding is modelled: with |exact| <= B the rounding error is at most 2^-53 * B in
    # absolute value, which keeps the queries linear.  None selects the relative model exact*(1+d) (non-linear).
    BOUND = None

    @staticmethod
    def _round(exact):
        ctx = symx.Ctx.cur
        d = z3.Real(ctx.fresh_name('rd'))
        if SRd.BOUND is None:
            ctx.assume(z3.And(d >= -U53, d <= U53))
            return SRd(exact * (1 + d))
        e = U53 * SRd.BOUND
        ctx.assume(z3.And(d >= -e, d <= e))
        return SRd(exact + d)

    def _addsub(self, o, sign, swap):
        b, zero = self._lift(o)
        if zero:
            return self if (sign > 0 or not swap) else SRd(-self.t)
        a = self.t
        if swap:
            a, b = b, a
        return self._round(a + b if sign > 0 else a - b)

    def __add__(self, o): return self._addsub(o, 1, False)
    def __radd__(self, o): return self._addsub(o, 1, True)
    def __sub__(self, o): return self._addsub(o, -1, False)
    def __rsub__(self, o): return self._addsub(o, -1, True)

    def __mul__(self, o):
        b, _ = self._lift(o)
        if not isinstance(o, SRd) and _pow2(o):
            return SRd(self.t * b)
        return self._round(self.t * b)
    __rmul__ = __mul__

    def __truediv__(self, o):
        b, _ = self._lift(o)
        if not isinstance(o, SRd) and _pow2(o):
            return SRd(self.t / b)
        return self._round(self.t / b)

    def __rtruediv__(self, o):
        a, _ = self._lift(o)
        return self._round(a / self.t)

    def __neg__(self): return SRd(-self.t)
    def __pos__(self): return self
    def __lt__(self, o): return symx.mkbool(self.t < self._lift(o)[0])
    def __le__(self, o): return symx.mkbool(self.t <= self._lift(o)[0])
    def __gt__(self, o): return symx.mkbool(self.t > self._lift(o)[0])
    def __ge__(self, o): return symx.mkbool(self.t >= self._lift(o)[0])
    def __eq__(self, o): return symx.mkbool(self.t == self._lift(o)[0])
    def __ne__(self, o): return symx.mkbool(self.t != self._lift(o)[0])
    __hash__ = None

    def __float__(self):
        raise symx.Abort('float() of a rounded-real proxy')

    def __int__(self):
        raise symx.Abort('int() of a rounded-real proxy')

    def __repr__(self):
        return '<rd %s>' % str(self.t)[:60]


class SEx(SRd):
    """same interface, exact real arithmetic (no rounding terms): the reference run"""
    __slots__ = ()

    @staticmethod
    def _round(exact):
        return SEx(exact)

    def __neg__(self): return SEx(-self.t)

    def __mul__(self, o):
        return SEx(self.t * self._lift(o)[0])
    __rmul__ = __mul__

    def __truediv__(self, o):
        return SEx(self.t / self._lift(o)[0])


class FPNumpy:
    """the numpy names a kernel under binary64 / rounded-real analysis uses on proxies; everything else is numpy's"""

    def __getattr__(self, name):
        return getattr(np, name)

    @staticmethod
    def empty(shape, dtype=None):
        return np.empty(shape, dtype=object)

    @staticmethod
    def zeros(shape, dtype=None):
        a = np.empty(shape, dtype=object)
        a[...] = 0.0
        return a

    @staticmethod
    def array(x, dtype=None):
        x = list(x) if not isinstance(x, np.ndarray) else x
        a = np.empty(len(x), dtype=object)
        for i, v in enumerate(x):
            a[i] = v
        return a

    @staticmethod
    def linspace(start, stop, num=50, endpoint=True):
        """numpy.linspace's algorithm (numpy/core/function_base.py): step = (stop-start)/div; y = arange(num)*step + start;
        the last point is set to stop"""
        num = int(num)
        div = num - 1 if endpoint else num
        out = np.empty(num, dtype=object)
        if num == 0:
            return out
        if div > 0:
            step = (stop - start) / div
            for i in range(num):
                out[i] = start + 0.0 if i == 0 else (float(i) * step + start)
        else:
            out[0] = start + 0.0
        if endpoint and num > 1:
            out[-1] = stop
        return out
