"""Bit-precise binary64 proxies (QF_FP) for the few kernels whose property depends on IEEE-754 rounding.

An SF wraps a z3 FloatingPoint(11, 53) term; + - * / round to nearest even like CPython floats, comparisons
return symx.SBool so that branches fork through the running symx.Ctx.  fp_int stands in for the builtin int()
inside the analysed module: truncation toward zero, kept as an integral binary64 value (exact for |v| < 2^53, which
the callers assume and state)."""
import numpy as np
import z3

from lib import symx

F64 = z3.Float64()
RNE = z3.RNE()


def lift(v):
    if isinstance(v, SF):
        return v.t
    if isinstance(v, (bool, np.bool_)):
        raise TypeError('bool in binary64 arithmetic')
    if isinstance(v, (int, np.integer)):
        if abs(int(v)) >= 2 ** 53:
            raise OverflowError('integer outside the exact binary64 range')
        return z3.FPVal(float(int(v)), F64)
    if isinstance(v, (float, np.floating)):
        return z3.FPVal(float(v), F64)
    raise TypeError('cannot lift %r to binary64' % type(v))


class SF(symx.Sym):
    __slots__ = ('t',)

    def __init__(self, t):
        self.t = t

    def __add__(self, o): return SF(z3.fpAdd(RNE, self.t, lift(o)))
    def __radd__(self, o): return SF(z3.fpAdd(RNE, lift(o), self.t))
    def __sub__(self, o): return SF(z3.fpSub(RNE, self.t, lift(o)))
    def __rsub__(self, o): return SF(z3.fpSub(RNE, lift(o), self.t))
    def __mul__(self, o): return SF(z3.fpMul(RNE, self.t, lift(o)))
    def __rmul__(self, o): return SF(z3.fpMul(RNE, lift(o), self.t))
    def __truediv__(self, o): return SF(z3.fpDiv(RNE, self.t, lift(o)))
    def __rtruediv__(self, o): return SF(z3.fpDiv(RNE, lift(o), self.t))
    def __neg__(self): return SF(z3.fpNeg(self.t))
    def __pos__(self): return self
    def __abs__(self): return SF(z3.fpAbs(self.t))
    def __lt__(self, o): return symx.mkbool(z3.fpLT(self.t, lift(o)))
    def __le__(self, o): return symx.mkbool(z3.fpLEQ(self.t, lift(o)))
    def __gt__(self, o): return symx.mkbool(z3.fpGT(self.t, lift(o)))
    def __ge__(self, o): return symx.mkbool(z3.fpGEQ(self.t, lift(o)))
    def __eq__(self, o): return symx.mkbool(z3.fpEQ(self.t, lift(o)))
    def __ne__(self, o): return symx.mkbool(z3.Not(z3.fpEQ(self.t, lift(o))))
    __hash__ = None

    def __int__(self):
        raise symx.Abort('int() of a symbolic binary64 outside the shim')

    def __float__(self):
        raise symx.Abort('float() of a symbolic binary64')

    def __repr__(self):
        return '<fp64 %s>' % str(self.t)[:60]


def fp_int(x, *a):
    """stand-in for int(): truncation toward zero, result kept as an integral binary64"""
    if isinstance(x, SF):
        return SF(z3.fpRoundToIntegral(z3.RTZ(), x.t))
    return int(x, *a)


def var(name):
    return SF(z3.FP(name, F64))


def model_float(m, x):
    """python float of a binary64 term in model m"""
    v = m.eval(x.t if isinstance(x, SF) else x, model_completion=True)
    if z3.is_fp(v) and (v.isNaN()):
        return float('nan')
    if v.isInf():
        return float('-inf') if v.isNegative() else float('inf')
    bv = m.eval(z3.fpToIEEEBV(v), model_completion=True)
    import struct
    return struct.unpack('<d', struct.pack('<Q', bv.as_long()))[0]
