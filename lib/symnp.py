"""symnp -- numpy stand-ins for running pygyro.model on symbolic extents.

SymArr models a numpy array whose *shape is symbolic*: a buffer is a write log over an
uninterpreted initial content; a view is (buffer, offset, contiguous parent shape, per-axis
[start,len) ranges, axis permutation, owning array).  Reading an element resolves the log
backwards with div/mod by the symbolic parent strides.

SymSeq models a coordinate sequence of symbolic length with uninterpreted elements.
NPShim replaces the `np` global of pygyro.model.layout / grid.
"""
import numpy as _np
import z3

from . import symx
from .symx import Sym, SInt, SBool, zt, wrap, swrap, ite

VAL = z3.DeclareSort('Val')
FLAT = [0]


def zi(x):
    if isinstance(x, (int, _np.integer)):
        return symx.ival(int(x))
    if isinstance(x, Sym):
        return x.term()
    if z3.is_expr(x):
        return x
    raise TypeError(type(x))


def sym_prod(xs):
    r = 1
    for x in xs:
        r = r * x
    return r


def truth(c):
    """python truth of a (possibly symbolic) condition -- forks"""
    return c if isinstance(c, bool) else bool(c)


def sub_nonneg(hi, lo):
    c = hi >= lo
    if isinstance(c, SBool):
        return ite(c, hi - lo, 0)
    return hi - lo if c else 0


class Buf:
    def __init__(self, name, size, init):
        self.name = name
        self.size = size
        self.init = init          # callable pos(z3 term) -> z3 Val term
        self.writes = []
        self.epochs = [(0, init)]  # (first write index, content before that write)

    def version(self):
        return len(self.writes)

    def reset(self, init):
        """re-abstraction: from now on the buffer content is `init` (used to replace a verified
        intermediate state by its post-condition; older versions stay readable)"""
        self.writes.append(None)              # marker: bumps the version so that older versions stay distinct
        self.epochs.append((len(self.writes), init))
        self.init = init

    def epoch(self, ver):
        base, init = self.epochs[0]
        for b, i in self.epochs:
            if b <= ver:
                base, init = b, i
        return base, init


class Write:
    """dst view <- copy of src view at src version (with per-axis broadcast flags), or fn(view idx) -> Val"""

    def __init__(self, dst, kind, src=None, srcver=None, fn=None, bcast=None):
        self.dst = dst
        self.kind = kind
        self.src = src
        self.srcver = srcver
        self.fn = fn
        self.bcast = bcast


def read_buf(buf, ver, pos):
    base, init = buf.epoch(ver)
    val = init(pos)
    for w in buf.writes[base:ver]:
        if w is None:
            continue
        cond, idx = w.dst.member(pos)
        if w.kind == 'copy':
            sidx = [symx.ival(0) if b else i for i, b in zip(idx, w.bcast)]
            v = w.src.read_at(sidx, w.srcver)
        else:
            v = w.fn(idx)
        val = z3.If(cond, v, val)
    return val


class SymArr:
    def __init__(self, buf, base, pshape, ranges=None, perm=None, root=None):
        self.root = root
        self.buf = buf
        self.off = base
        self.pshape = list(pshape)
        self.ranges = list(ranges) if ranges is not None else [(0, n) for n in pshape]
        self.perm = list(perm) if perm is not None else list(range(len(pshape)))

    # ---- numpy-like API
    @property
    def shape(self):
        return tuple(self.ranges[p][1] for p in self.perm)

    @property
    def ndim(self):
        return len(self.perm)

    @property
    def size(self):
        return sym_prod(self.shape)

    @property
    def base(self):
        return self.root

    @property
    def dtype(self):
        return _np.dtype(float)

    def _r(self):
        return self.root if self.root is not None else self

    def __len__(self):
        raise TypeError('len() of SymArr: use shim')

    def reshape(self, *shape):
        if len(shape) == 1 and isinstance(shape[0], (list, tuple, _np.ndarray)):
            shape = shape[0]
        shape = list(shape)
        if len(self.pshape) == 1:
            start, ln = self.ranges[0]
            if not truth(ln == sym_prod(shape)):
                raise ValueError('cannot reshape array of size %s into shape %s' % (ln, shape))
            return SymArr(self.buf, self.off + start, shape, root=self._r())
        raise NotImplementedError('reshape of n-d view')

    def transpose(self, *order):
        if len(order) == 1 and isinstance(order[0], (list, tuple, _np.ndarray)):
            order = order[0]
        order = [int(o) for o in order]
        if sorted(order) != list(range(self.ndim)):
            raise ValueError("axes don't match array")
        return SymArr(self.buf, self.off, self.pshape, self.ranges, [self.perm[o] for o in order], root=self._r())

    def flatten(self):
        """C-order copy into a fresh 1-D array (numpy semantics: always a copy)"""
        FLAT[0] += 1
        src, ver = self, self.buf.version()
        shp = [zi(x) for x in self.shape]
        nd = self.ndim
        junk = z3.Function('flatjunk%d' % FLAT[0], symx.isort(), VAL)
        out = new_array('flat%d' % FLAT[0], self.size, lambda pos: junk(pos))

        def fn(idx):
            k = idx[0]
            st = [None] * nd
            acc = symx.ival(1)
            for a in range(nd - 1, -1, -1):
                st[a] = acc
                acc = acc * shp[a]
            mi = []
            r = k
            for a in range(nd):
                if a == nd - 1:
                    mi.append(r)
                else:
                    mi.append(r / st[a])
                    r = r % st[a] if symx.BVW is None else z3.SRem(r, st[a])
            return src.read_at(mi, ver)
        out.buf.writes.append(Write(out, 'fn', fn=fn))
        return out

    @staticmethod
    def _clip(v, n):
        if isinstance(v, (int, _np.integer)) and isinstance(n, (int, _np.integer)):
            v = int(v)
            if v < 0:
                v = max(0, v + int(n))
            return min(v, int(n))
        # non-negative symbolic bound (negative indices never occur in pygyro.model; guarded)
        if isinstance(v, (int, _np.integer)) and v < 0:
            raise NotImplementedError('negative slice bound on symbolic extent')
        return ite(v <= n, v, n)

    def __getitem__(self, key):
        if not isinstance(key, tuple):
            key = (key,)
        if any(k is Ellipsis for k in key):
            raise NotImplementedError('Ellipsis')
        key = list(key) + [slice(None)] * (self.ndim - len(key))
        if len(key) > self.ndim:
            raise IndexError('too many indices for array')
        ranges = list(self.ranges)
        for a, k in enumerate(key):
            p = self.perm[a]
            s0, n = self.ranges[p]
            if not (isinstance(k, slice) and k.step is None):
                raise NotImplementedError('only step-free slices are modelled')
            lo = 0 if k.start is None else self._clip(k.start, n)
            hi = n if k.stop is None else self._clip(k.stop, n)
            ranges[p] = (s0 + lo, sub_nonneg(hi, lo))
        return SymArr(self.buf, self.off, self.pshape, ranges, self.perm, root=self._r())

    def __setitem__(self, key, value):
        dst = self[key]
        if not isinstance(value, SymArr):
            raise NotImplementedError('assignment of %r' % type(value))
        if dst.ndim != value.ndim:
            raise NotImplementedError('rank-changing broadcast')
        bcast = []
        for a, b in zip(dst.shape, value.shape):
            if truth(a == b):
                bcast.append(False)
            elif truth(b == 1):
                bcast.append(True)
            else:
                raise ValueError('could not broadcast input array from shape %s into shape %s' % (value.shape, dst.shape))
        dst.buf.writes.append(Write(dst, 'copy', value, value.buf.version(), bcast=bcast))

    # ---- symbolic access
    def pstrides(self):
        st = [1] * len(self.pshape)
        for i in range(len(self.pshape) - 2, -1, -1):
            st[i] = st[i + 1] * self.pshape[i + 1]
        return st

    def member(self, pos):
        """absolute buffer position -> (condition 'pos is an element of this view', view multi-index)"""
        rel = pos - zi(self.off)
        st = self.pstrides()
        tot = zi(sym_prod(self.pshape))
        cond = [rel >= 0, rel < tot]
        pidx = []
        r = rel
        for a in range(len(self.pshape)):
            if a == len(self.pshape) - 1:
                q = r
            else:
                s = zi(st[a])
                q = r / s
                r = r % s if symx.BVW is None else z3.SRem(r, s)
            pidx.append(q)
        vidx = [None] * self.ndim
        for a, p in enumerate(self.perm):
            s0, ln = self.ranges[p]
            cond += [pidx[p] >= zi(s0), pidx[p] < zi(s0) + zi(ln)]
            vidx[a] = pidx[p] - zi(s0)
        # axes of the parent that the view does not permute do not exist (views keep all axes)
        return z3.And(cond), vidx

    def pos_of(self, vidx):
        st = self.pstrides()
        pos = zi(self.off)
        for a, p in enumerate(self.perm):
            pos = pos + (vidx[a] + zi(self.ranges[p][0])) * zi(st[p])
        return pos

    def read_at(self, vidx, ver=None):
        if ver is None:
            ver = self.buf.version()
        return read_buf(self.buf, ver, self.pos_of(vidx))


def new_array(name, size, init):
    """an owning 1-D SymArr over a fresh buffer"""
    b = Buf(name, size, init)
    return SymArr(b, 0, [size])


class SymLen:
    """stand-in for a coordinate array of which only the length matters"""

    def __init__(self, n):
        self.n = n


class SymSeq:
    """coordinate sequence of symbolic length n; element i is f(i) (python callable -> proxy)"""

    def __init__(self, n, f, off=0):
        self.n = n
        self.f = f
        self.off = off

    def __getitem__(self, k):
        if isinstance(k, slice):
            if k.step is not None:
                raise NotImplementedError
            lo = 0 if k.start is None else SymArr._clip(k.start, self.n)
            hi = self.n if k.stop is None else SymArr._clip(k.stop, self.n)
            return SymSeq(sub_nonneg(hi, lo), self.f, self.off + lo)
        if not truth((k >= 0) & (k < self.n) if isinstance(k, Sym) or isinstance(self.n, Sym) else (0 <= k < self.n)):
            raise IndexError('index out of range')
        return self.f(self.off + k)

    def __iter__(self):
        i = 0
        while truth(i < self.n):
            yield self.f(self.off + i)
            i += 1


def symlen(x):
    if isinstance(x, (SymLen, SymSeq)):
        return x.n
    return len(x)


class NPShim:
    """replacement for the `np` global of pygyro.model.layout / grid"""

    def __getattr__(self, k):
        return getattr(_np, k)

    def zeros(self, shape, dtype=None):
        if dtype in (int, None, float):
            a = _np.empty(shape, dtype=object)
            a[...] = 0
            return a
        return _np.zeros(shape, dtype)

    new_buffer = None      # callable(size) -> owning SymArr, set by the harness

    def empty(self, shape, dtype=None):
        if isinstance(shape, Sym):
            return self.new_buffer(shape)
        return _np.empty(shape, dtype=object)

    def prod(self, xs, axis=None):
        if not hasattr(xs, '__iter__'):
            return xs
        xs = list(xs)
        if any(isinstance(x, Sym) for x in xs):
            return sym_prod(xs)
        return int(_np.prod([int(x) for x in xs])) if all(isinstance(x, (int, _np.integer)) for x in xs) else _np.prod(xs)

    def split(self, arr, idx, axis=0):
        if isinstance(arr, SymArr):
            out = []
            lo = 0
            for i in list(idx):
                out.append(arr[lo:i])
                lo = i
            out.append(arr[lo:])
            return out
        return _np.split(arr, idx, axis)

    def transpose(self, arr, order=None):
        if isinstance(arr, SymArr):
            return arr.transpose(order)
        return _np.transpose(arr, order)

    def array(self, x, *a, **k):
        if isinstance(x, (list, tuple)) and any(not isinstance(v, (int, float, _np.number, list, tuple, _np.ndarray)) for v in x):
            out = _np.empty(len(x), dtype=object)
            for i, v in enumerate(x):
                out[i] = v
            return out
        return _np.array(x, *a, **k)

    def nonzero(self, a):
        return _np.nonzero(_np.array([bool(v) for v in a]))
