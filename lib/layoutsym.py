"""Shared machinery for the layout properties (C01, C02 buffers, C03, C04, C06b):
running the real pygyro.model.layout on symbolic extents, and replaying on real numpy."""
import itertools
import math
import warnings

import numpy as np
import z3

from . import symx, symnp, simmpi
from . import harness as H
from .symnp import zi, SymArr, SymLen, VAL

_SYM = {}


def modules():
    """(pristine layout module, shimmed copy).  The pristine one runs replays on real numpy."""
    if not _SYM:
        H.install_fake_mpi()
        real = H.repo_import('pygyro.model.layout')
        sym = H.load_copy('pygyro.model.layout', 'pygyro_model_layout__sym')
        import numpy
        shim = symnp.NPShim()
        names = H.rebind(sym, [(numpy, shim)])
        sym.len = symnp.symlen
        _SYM.update(real=real, sym=sym, stubs=names + ['%s.len' % sym.__name__])
    return _SYM['real'], _SYM['sym']


def stubs():
    modules()
    return list(_SYM['stubs'])


def bv_width(pmax, N, nd):
    return max(12, math.ceil(math.log2(max(2, pmax * N ** nd))) + 3)


def flat_index_to_multi(pos, shape):
    """z3: flat C-order position -> multi-index for symbolic shape (list of z3 terms)"""
    nd = len(shape)
    st = [None] * nd
    acc = symx.ival(1)
    for a in range(nd - 1, -1, -1):
        st[a] = acc
        acc = acc * shape[a]
    r = pos
    li = []
    for a in range(nd):
        if a == nd - 1:
            li.append(r)
        else:
            li.append(r / st[a])
            r = r % st[a] if symx.BVW is None else z3.SRem(r, st[a])
    return li, acc


def field_init(layout, G, junk_fn):
    """initial content of a buffer holding the global field G in `layout` (junk above layout.size)"""
    nd = layout.ndims
    shp = [zi(s) for s in layout.shape]

    def init(pos):
        li, tot = flat_index_to_multi(pos, shp)
        g = [None] * nd
        for a in range(nd):
            g[layout.dims_order[a]] = li[a] + zi(layout.starts[a])
        return z3.If(z3.And(pos >= 0, pos < tot), G(*g), junk_fn(pos))
    return init


def expected_at(layout, G, li):
    nd = layout.ndims
    g = [None] * nd
    for a in range(nd):
        g[layout.dims_order[a]] = li[a] + zi(layout.starts[a])
    return G(*g)


def flat_pos(layout, li):
    shp = [zi(x) for x in layout.shape]
    pos = symx.ival(0)
    for a in range(layout.ndims):
        pos = pos * shp[a] + li[a]
    return pos


def extent_vars(ctx, nd, N, mins):
    ns = [symx.mkint('n%d' % i) for i in range(nd)]
    for i, nv in enumerate(ns):
        ctx.assume(z3.And(nv >= mins[i], nv <= N))
    return ns


def min_extents(nd, layout_sets):
    """layout_sets: iterable of (layouts dict, nprocs list): every dimension distributed over p needs n >= p"""
    mins = [1] * nd
    for layouts, nprocs in layout_sets:
        for do in layouts.values():
            for i, p in enumerate(nprocs):
                mins[do[i]] = max(mins[do[i]], p)
    return mins


# ----------------------------------------------------------------------------- concrete replay
def concrete_handler_transpose(shape, nprocs, layouts, src, dst, use_buf, payload='float', module=None):
    """Run the real LayoutHandler on real numpy under the thread MPI simulator.
    Returns list of problems (empty = transpose correct on every rank)."""
    real, _ = modules()
    if module is not None:
        real = module
    nd = len(shape)
    size = int(np.prod(nprocs))
    Gd = np.arange(int(np.prod(shape)), dtype=float).reshape(shape) + 1.0
    if payload == 'complex':
        Gd = Gd + 1j * (Gd * 0.5 + 0.25)
    elif payload == 'int':
        Gd = Gd.astype(np.int64)
    eta = [np.arange(n, dtype=float) for n in shape]
    probs = []

    def rankfn(comm):
        with warnings.catch_warnings():
            warnings.simplefilter('ignore')
            h = real.getLayoutHandler(comm, dict(layouts), list(nprocs), eta)
            ls, ld = h.getLayout(src), h.getLayout(dst)
            s = np.full(h.bufferSize, -1, dtype=Gd.dtype)
            d = np.full(h.bufferSize, -2, dtype=Gd.dtype)
            b = np.full(h.bufferSize, -3, dtype=Gd.dtype) if use_buf else None
            sl = tuple(slice(a, e) for a, e in zip(ls.starts, ls.ends))
            s[:ls.size] = np.transpose(Gd, ls.dims_order)[sl].flatten()
            s0 = s.copy()
            h.transpose(s, d, src, dst, b)
            dl = tuple(slice(a, e) for a, e in zip(ld.starts, ld.ends))
            exp = np.transpose(Gd, ld.dims_order)[dl].flatten()
            out = []
            if not np.array_equal(d[:ld.size], exp):
                out.append('rank %d: destination block differs from the global field' % comm.Get_rank())
            if use_buf and not np.array_equal(s[:ls.size], s0[:ls.size]):
                out.append('rank %d: source block modified although a buffer was supplied' % comm.Get_rank())
            return out
    try:
        for r in simmpi.World(size).run(rankfn):
            probs += r
    except Exception as e:
        probs.append('%s: %s' % (type(e).__name__, e))
    return probs


# ----------------------------------------------------------------------------- step contracts
class Session:
    """per-path bookkeeping for assume/guarantee over the single steps of a multi-step transpose:
    after every real single step the destination is *checked later* against the field in the step's
    destination layout (obligation recorded with the buffer version) and then re-abstracted to exactly
    that post-condition (field below layout.size, fresh junk above)."""

    def __init__(self, G, junk):
        self.G = G
        self.junk = junk
        self.obligations = []       # dict(kind, buf, ver, layout, ...)
        self.n = 0

    def after_step(self, dest, ld, source=None, ls=None, src_pre=None):
        self.n += 1
        k = self.n
        self.obligations.append(dict(kind='dest', arr=dest, ver=dest.buf.version(), layout=ld, step=k))
        if source is not None:
            self.obligations.append(dict(kind='intact', arr=source, pre=src_pre, ver=source.buf.version(), layout=ls, step=k))
        junk = self.junk
        tagv = symx.ival(100 + k)
        dest.buf.reset(field_init(ld, self.G, lambda pos: junk(tagv, symx.ival(7), pos)))

    def discharge(self, ctx, nd):
        """yields (obligation, verdict) with verdict in unsat/sat/unknown"""
        for ob in self.obligations:
            lay = ob['layout']
            if ob['kind'] == 'dest':
                li = [symx.mkint('i%d' % a) for a in range(nd)]
                cons = [z3.And(li[a] >= 0, li[a] < zi(lay.shape[a])) for a in range(nd)]
                got = symnp.read_buf(ob['arr'].buf, ob['ver'], flat_pos(lay, li))
                yield ob, ctx.check(*cons, got != expected_at(lay, self.G, li))
            else:
                pos = symx.mkint('pos')
                a = symnp.read_buf(ob['arr'].buf, ob['pre'], pos)
                b = symnp.read_buf(ob['arr'].buf, ob['ver'], pos)
                yield ob, ctx.check(pos >= 0, pos < zi(lay.size), a != b)


def install_step_contracts(lay):
    """wrap the single-step methods of the (shimmed) LayoutHandler; the session is looked up at call time"""
    LH = lay.LayoutHandler
    if getattr(LH, '_verif_wrapped', False):
        return
    orig_t, orig_ts = LH._transpose, LH._transpose_source_intact

    def _transpose(self, source, dest, layout_source, layout_dest):
        orig_t(self, source, dest, layout_source, layout_dest)
        ses = getattr(lay, '_verif_session', None)
        if ses is not None:
            ses.after_step(dest, layout_dest)

    def _transpose_source_intact(self, source, dest, buf, layout_source, layout_dest):
        pre = source.buf.version()
        orig_ts(self, source, dest, buf, layout_source, layout_dest)
        ses = getattr(lay, '_verif_session', None)
        if ses is not None:
            ses.after_step(dest, layout_dest, source=source, ls=layout_source, src_pre=pre)
    LH._transpose = _transpose
    LH._transpose_source_intact = _transpose_source_intact
    LH._verif_wrapped = True


def install_swapper_contracts(lay):
    """same assume/guarantee wrapping for the gather / scatter / local steps of LayoutSwapper"""
    LSW = lay.LayoutSwapper
    if getattr(LSW, '_verif_wrapped', False):
        return
    orig_t, orig_ts = LSW._transpose, LSW._transpose_source_intact

    def _transpose(self, source, dest, layout_source, layout_dest):
        orig_t(self, source, dest, layout_source, layout_dest)
        ses = getattr(lay, '_verif_session', None)
        if ses is not None:
            ses.after_step(dest, layout_dest)

    def _transpose_source_intact(self, source, dest, buf, layout_source, layout_dest):
        pre = source.buf.version()
        orig_ts(self, source, dest, buf, layout_source, layout_dest)
        ses = getattr(lay, '_verif_session', None)
        if ses is not None:
            ses.after_step(dest, layout_dest, source=source, ls=layout_source, src_pre=pre)
    LSW._transpose = _transpose
    LSW._transpose_source_intact = _transpose_source_intact
    LSW._verif_wrapped = True


def concrete_swapper_transpose(shape, nprocs, groups, group_procs, start, src, dst, use_buf, module=None, back=False):
    """real LayoutSwapper on real numpy under the thread MPI simulator; returns list of problems"""
    real, _ = modules()
    if module is not None:
        real = module
    size = int(np.prod(nprocs))
    Gd = np.arange(int(np.prod(shape)), dtype=float).reshape(shape) + 1.0
    eta = [np.arange(n, dtype=float) for n in shape]

    def rankfn(comm):
        with warnings.catch_warnings():
            warnings.simplefilter('ignore')
            sw = real.LayoutSwapper(comm, [dict(g) for g in groups], [p if isinstance(p, int) else list(p) for p in group_procs], eta, start)
            ls, ld = sw.getLayout(src), sw.getLayout(dst)
            s = np.full(sw.bufferSize, -1.0)
            d = np.full(sw.bufferSize, -2.0)
            b = np.full(sw.bufferSize, -3.0) if use_buf else None
            sl = tuple(slice(a, e) for a, e in zip(ls.starts, ls.ends))
            s[:ls.size] = np.transpose(Gd, ls.dims_order)[sl].flatten()
            s0 = s.copy()
            sw.transpose(s, d, src, dst, b)
            dl = tuple(slice(a, e) for a, e in zip(ld.starts, ld.ends))
            exp = np.transpose(Gd, ld.dims_order)[dl].flatten()
            out = []
            if not np.array_equal(d[:ld.size], exp):
                out.append('rank %d: destination block differs from the global field' % comm.Get_rank())
            if use_buf and not np.array_equal(s[:ls.size], s0[:ls.size]):
                out.append('rank %d: source block modified although a buffer was supplied' % comm.Get_rank())
            if sw._current_manager is not sw._managers[sw._handlers[dst]]:
                out.append('rank %d: current manager not updated' % comm.Get_rank())
            return out
    probs = []
    try:
        for r in simmpi.World(size).run(rankfn):
            probs += r
    except Exception as e:
        probs.append('%s: %s' % (type(e).__name__, e))
    return probs
