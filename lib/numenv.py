"""numenv -- exact-real execution environment for the numerical pygyro modules.

enable() rebinds, in the *loaded* pygyro modules, the few globals that would force concrete floats
(numpy array constructors -> object dtype, int(), LAPACK / SuperLU / scipy.sparse entry points);
disable() restores them so that the same process can replay counter-models on the pristine float code.
Linear solves are performed by contract: A c = b, computed exactly in Q when A is concrete (the unique
object satisfying the contract), asserted as equations on fresh reals when A is symbolic.
"""
import math
from fractions import Fraction as Fr

import numpy as _np
import z3

from . import symx
from . import harness as H
from .symx import Sym, SNum, SReal, SInt, SBool, K, fval, wrap, ite, zt, toreal

_STATE = dict(enabled=False, saved=[], mods=None)


def karr(vals):
    a = _np.empty(len(vals), dtype=object)
    for i, v in enumerate(vals):
        a[i] = K(v)
    return a


def kmat(rows):
    rows = [list(r) for r in rows]
    a = _np.empty((len(rows), len(rows[0])), dtype=object)
    for i, r in enumerate(rows):
        for j, v in enumerate(r):
            a[i, j] = K(v)
    return a


def isz(v):
    if isinstance(v, SNum):
        return v.c is not None and v.c == 0
    if isinstance(v, Sym):
        return False
    return v == 0


def oempty(shape, dtype=None):
    return _np.empty(shape, dtype=object)


class NPNum:
    """`np` stand-in for the numerical modules: object dtype everywhere, non-forking where/amin"""

    def __getattr__(self, k):
        return getattr(_np, k)

    def zeros(self, shape, dtype=None):
        a = _np.empty(shape, dtype=object)
        a[...] = 0
        return a

    def ones(self, shape, dtype=None):
        a = _np.empty(shape, dtype=object)
        a[...] = 1
        return a

    def empty(self, shape, dtype=None):
        return _np.empty(shape, dtype=object)

    def ndarray(self, shape, dtype=None):
        return _np.empty(shape, dtype=object)

    def empty_like(self, a, dtype=None):
        return _np.empty(_np.shape(a), dtype=object)

    def zeros_like(self, a, dtype=None):
        r = _np.empty(_np.shape(a), dtype=object)
        r[...] = 0
        return r

    def full_like(self, a, v, dtype=None):
        r = _np.empty(_np.shape(a), dtype=object)
        r[...] = v
        return r

    def array(self, x, dtype=None, **kw):
        if isinstance(x, _np.ndarray):
            return x.astype(object)
        x = list(x)
        out = _np.empty(len(x), dtype=object)
        for i, v in enumerate(x):
            out[i] = v
        if len(x) and isinstance(x[0], (list, tuple, _np.ndarray)):
            return _np.array([list(r) for r in x], dtype=object)
        return out

    def around(self, x, decimals=0):
        return x                     # rounding to 15 decimals: identity in exact arithmetic (stated)

    def linspace(self, a, b, num=50, endpoint=True):
        num = int(num)
        n = num - 1 if endpoint else num
        out = _np.empty(num, dtype=object)
        for i in range(num):
            out[i] = (a + (b - a) * K(Fr(i, n))) if n else a
        return out

    def where(self, c, a=None, b=None):
        if a is None:
            return _np.where(_np.array([bool(v) for v in _np.ravel(c)]).reshape(_np.shape(c)))
        c = _np.asarray(c, dtype=object)
        a = _np.broadcast_to(_np.asarray(a, dtype=object), c.shape)
        b = _np.broadcast_to(_np.asarray(b, dtype=object), c.shape)
        out = _np.empty(c.shape, dtype=object)
        for idx in _np.ndindex(c.shape):
            out[idx] = ite(c[idx], a[idx], b[idx])
        return out

    def isclose(self, a, b, rtol=1e-05, atol=1e-08, equal_nan=False):
        """numpy.isclose by its definition: |a - b| <= atol + rtol * |b| (elementwise, as symbolic conditions)"""
        aa = _np.asarray(a, dtype=object)
        bb = _np.asarray(b, dtype=object)
        aa, bb = _np.broadcast_arrays(aa, bb)
        out = _np.empty(aa.shape, dtype=object)
        for idx in _np.ndindex(aa.shape):
            x, y = aa[idx], bb[idx]
            d = x - y
            out[idx] = (abs(d) if not isinstance(d, Sym) else abs(d)) <= (K(symx.rationalise(float(atol))) + K(symx.rationalise(float(rtol))) * abs(y))
        return out if out.shape else out[()]

    def allclose(self, a, b, rtol=1e-05, atol=1e-08, equal_nan=False):
        c = self.isclose(a, b, rtol, atol)
        res = True
        for v in _np.ravel(_np.asarray(c, dtype=object)):
            res = res and bool(v)
        return res

    def mod(self, a, b):
        return a % b

    def fmod(self, a, b):
        """C fmod: remainder with the sign of the dividend: a - b*trunc(a/b)"""
        def one(x, y):
            q = x / y
            return x - y * symx.symint(q if isinstance(q, Sym) else K(q))
        if isinstance(a, _np.ndarray):
            bb = _np.broadcast_to(_np.asarray(b, dtype=object), a.shape)
            out = _np.empty(a.shape, dtype=object)
            for idx in _np.ndindex(a.shape):
                out[idx] = one(a[idx], bb[idx])
            return out
        return one(a, b)

    def imag(self, a):
        if isinstance(a, _np.ndarray):
            out = _np.empty(a.shape, dtype=object)
            for idx in _np.ndindex(a.shape):
                out[idx] = getattr(a[idx], 'imag', 0)
            return out
        return getattr(a, 'imag', 0)

    def eye(self, n):
        return _np.eye(n, dtype=int).astype(object)

    def floor(self, a):
        if isinstance(a, _np.ndarray):
            out = _np.empty(a.shape, dtype=object)
            for idx in _np.ndindex(a.shape):
                out[idx] = math.floor(a[idx]) if not isinstance(a[idx], Sym) else a[idx].__floor__()
            return out
        return a.__floor__() if isinstance(a, Sym) else math.floor(a)

    def sqrt(self, a):
        if isinstance(a, _np.ndarray):
            out = _np.empty(a.shape, dtype=object)
            for idx in _np.ndindex(a.shape):
                out[idx] = K(a[idx]).sqrt()
            return out
        return K(a).sqrt()

    def real(self, a):
        if isinstance(a, _np.ndarray) and a.dtype == object:
            out = _np.empty(a.shape, dtype=object)
            for idx in _np.ndindex(a.shape):
                out[idx] = getattr(a[idx], 'real', a[idx])
            return out
        return getattr(a, 'real', a)

    def sum(self, a, axis=None):
        if isinstance(a, _np.ndarray) and a.dtype != object:
            return _np.sum(a, axis=axis)
        if axis is None:
            acc = 0
            for v in _np.ravel(_np.asarray(a, dtype=object)):
                acc = acc + v
            return acc
        return _np.sum(_np.asarray(a, dtype=object), axis=axis)


def symint(x):
    return symx.symint(x)


# ----------------------------------------------------------------------------- linear solves by contract
def _inv(A):
    n = len(A)
    M = [[fval(A[i][j]) for j in range(n)] + [Fr(int(i == j)) for j in range(n)] for i in range(n)]
    for c in range(n):
        p = next((r for r in range(c, n) if M[r][c] != 0), None)
        if p is None:
            raise ZeroDivisionError('singular matrix in solve contract')
        M[c], M[p] = M[p], M[c]
        pv = M[c][c]
        M[c] = [x / pv for x in M[c]]
        for r in range(n):
            if r != c and M[r][c] != 0:
                f = M[r][c]
                M[r] = [x - f * y for x, y in zip(M[r], M[c])]
    return [row[n:] for row in M]


_INVCACHE = {}
SOLVES = dict(exact=0, contract=0)


def solve_contract(A, b, trans=False):
    """c with A c = b (A^T c = b if trans).  A: n x n nested sequence of proxies / numbers; b: 1-D or 2-D"""
    n = len(A)
    AA = [[A[j][i] if trans else A[i][j] for j in range(n)] for i in range(n)]
    b = _np.asarray(b, dtype=object)
    concrete = all(symx.is_concrete(x) for row in AA for x in row)
    if concrete:
        SOLVES['exact'] += 1
        key = tuple(tuple(fval(x) for x in row) for row in AA)
        inv = _INVCACHE.get(key)
        if inv is None:
            inv = _inv(AA)
            _INVCACHE[key] = inv
        if b.ndim == 1:
            out = _np.empty(n, dtype=object)
            for i in range(n):
                acc = K(0)
                for j in range(n):
                    if inv[i][j] != 0:
                        acc = acc + K(inv[i][j]) * b[j]
                out[i] = acc
            return out
        out = _np.empty(b.shape, dtype=object)
        for col in range(b.shape[1]):
            out[:, col] = solve_contract(A, b[:, col], trans)
        return out
    SOLVES['contract'] += 1
    ctx = symx.Ctx.cur
    if b.ndim != 1:
        out = _np.empty(b.shape, dtype=object)
        for col in range(b.shape[1]):
            out[:, col] = solve_contract(A, b[:, col], trans)
        return out
    c = [z3.Real(ctx.fresh_name('sol')) for _ in range(n)]
    for i in range(n):
        terms = [toreal(zt(AA[i][j])) * c[j] for j in range(n) if not isz(AA[i][j])]
        ctx.assume(z3.Sum(terms) == toreal(zt(b[i])))
    out = _np.empty(n, dtype=object)
    for i in range(n):
        out[i] = SReal(c[i])
    return out


def _unband(ab, kl, ku, n):
    """LAPACK general band storage: AB[kl+ku+i-j, j] = A[i,j] for max(0,j-ku) <= i <= min(n-1,j+kl)"""
    A = [[0] * n for _ in range(n)]
    for j in range(n):
        for i in range(max(0, j - ku), min(n, j + kl + 1)):
            A[i][j] = ab[kl + ku + i - j, j]
    return A


def gbtrf(ab, kl, ku, overwrite_ab=False):
    return _np.array(ab, dtype=object), (int(kl), int(ku)), 0


def _maybe_in_place(b, x, overwrite_b):
    """overwrite_b=True lets LAPACK write the solution into the caller's array (it does for contiguous arrays of the routine's
    dtype, which is what pygyro passes): model it as always in place, the returned array being the argument itself"""
    if overwrite_b and isinstance(b, _np.ndarray) and b.dtype == object:
        b[...] = x
        return b
    return x


def gbtrs(ab, kl, ku, b, ipiv, trans=False, overwrite_b=False):
    n = _np.shape(ab)[1]
    A = _unband(ab, int(kl), int(ku), n)
    return _maybe_in_place(b, solve_contract(A, b, bool(trans)), overwrite_b), 0


def gbtrs_real(ab, kl, ku, b, ipiv, trans=False, overwrite_b=False):
    """dgbtrs: the f2py wrapper converts its right-hand side to float64; the imaginary part of complex input is discarded
    (numpy only emits a ComplexWarning)"""
    bb = _np.asarray(b, dtype=object)
    out = _np.empty(bb.shape, dtype=object)
    cast = False
    for idx in _np.ndindex(*bb.shape):
        x = bb[idx]
        cast = cast or isinstance(x, (symx.SComplex, complex))
        out[idx] = x.re if isinstance(x, symx.SComplex) else (x.real if isinstance(x, complex) else x)
    n = _np.shape(ab)[1]
    A = _unband(ab, int(kl), int(ku), n)
    x = solve_contract(A, out, bool(trans))
    return _maybe_in_place(b, x, overwrite_b and not cast), 0


class Dense:
    """stand-in for scipy.sparse matrices of the small collocation matrix"""

    def __init__(self, M):
        self.M = _np.array(M.M if isinstance(M, Dense) else M, dtype=object)
        self.shape = self.M.shape

    def toarray(self):
        return self.M

    def nonzero(self):
        ii, jj = [], []
        for i in range(self.shape[0]):
            for j in range(self.shape[1]):
                if not isz(self.M[i, j]):
                    ii.append(i)
                    jj.append(j)
        return _np.array(ii), _np.array(jj)

    def __getitem__(self, k):
        return self.M[k]

    @property
    def offsets(self):
        i, j = self.nonzero()
        return _np.unique(j - i)


class SPLU:
    def __init__(self, M):
        self.M = M.toarray() if hasattr(M, 'toarray') else _np.asarray(M, dtype=object)

    def solve(self, b, trans='N'):
        return solve_contract(self.M, b, trans == 'T')


def linalg_solve(A, b):
    return solve_contract(_np.asarray(A, dtype=object), b, False)


# ----------------------------------------------------------------------------- enable / disable
def _mods():
    if _STATE['mods'] is None:
        H.install_fake_mpi()
        m = {}
        m['sef'] = H.repo_import('pygyro.splines.spline_eval_funcs')
        m['cuf'] = H.repo_import('pygyro.splines.cubic_uniform_spline_eval_funcs')
        m['spl'] = H.repo_import('pygyro.splines.splines')
        m['si'] = H.repo_import('pygyro.splines.spline_interpolators')
        _STATE['mods'] = m
    return _STATE['mods']


def mods():
    return _mods()


def _set(mod, name, val):
    _STATE['saved'].append((mod, name, getattr(mod, name, _MISSING)))
    setattr(mod, name, val)


_MISSING = object()
STUBS = []


def patch_module(mod, extra=None):
    """apply the identity-based rebinding to one loaded module"""
    import numpy
    import scipy.linalg.lapack as lap
    import scipy.sparse as sp
    import scipy.sparse.linalg as spl
    shim = NPNum()
    table = [(numpy, shim), (numpy.empty, oempty), (numpy.zeros, shim.zeros), (numpy.ndarray, shim.ndarray),
             (lap.dgbtrf, gbtrf), (lap.dgbtrs, gbtrs_real), (lap.zgbtrf, gbtrf), (lap.zgbtrs, gbtrs),
             (sp.dia_matrix, Dense), (sp.csr_matrix, Dense), (sp.csc_matrix, Dense), (spl.splu, SPLU),
             (numpy.linalg.solve, linalg_solve)]
    for k, v in list(vars(mod).items()):
        for obj, rep in table:
            if v is obj:
                _set(mod, k, rep)
                STUBS.append('%s.%s' % (mod.__name__, k))
    for name, val in (extra or {}).items():
        _set(mod, name, val)
        STUBS.append('%s.%s' % (mod.__name__, name))


def enable(extra_modules=()):
    if _STATE['enabled']:
        return
    m = _mods()
    del STUBS[:]
    patch_module(m['sef'])
    patch_module(m['cuf'], dict(int=symint))
    patch_module(m['spl'])
    patch_module(m['si'])
    for mod, extra in extra_modules:
        patch_module(mod, extra)
    _STATE['enabled'] = True


def disable():
    for mod, name, old in reversed(_STATE['saved']):
        if old is _MISSING:
            try:
                delattr(mod, name)
            except AttributeError:
                pass
        else:
            setattr(mod, name, old)
    _STATE['saved'] = []
    _STATE['enabled'] = False
