"""Concrete-shape / symbolic-value distributed harness pieces (C05, C16, C17):
real Grid + real LayoutHandler on real numpy object arrays holding exact proxies, under the thread MPI simulator."""
import itertools
from fractions import Fraction as Fr

import numpy as np
import z3

from . import symx, numenv, simmpi
from . import harness as H
from .symx import K, SReal

_M = {}


def mods():
    """pristine pygyro.model modules (they run unmodified on object arrays) + numerical modules"""
    if not _M:
        H.install_fake_mpi()
        _M['layout'] = H.repo_import('pygyro.model.layout')
        _M['grid'] = H.repo_import('pygyro.model.grid')
        _M.update(numenv.mods())
        _M['init_funcs'] = H.repo_import('pygyro.initialisation.initialiser_funcs')
        _M['constants'] = H.repo_import('pygyro.initialisation.constants')
    return _M


def symbolic_field(name, shape):
    a = np.empty(shape, dtype=object)
    for idx in itertools.product(*[range(n) for n in shape]):
        a[idx] = SReal(z3.Real('%s_%s' % (name, '_'.join(str(i) for i in idx))))
    return a


def concrete_field(shape, seed=0, scale=1):
    """exact rational pseudo-random field"""
    import random
    rnd = random.Random(seed)
    a = np.empty(shape, dtype=object)
    for idx in itertools.product(*[range(n) for n in shape]):
        a[idx] = K(Fr(rnd.randint(-50, 50), 7) * scale)
    return a


def local_block(field, layout):
    sl = tuple(slice(int(s), int(e)) for s, e in zip(layout.starts, layout.ends))
    return np.transpose(field, layout.dims_order)[sl]


def fill_grid(grid, field):
    L = grid.getLayout(grid.currentLayout)
    grid.getAllData()[...] = local_block(field, L)


def assemble(results, full_shape, nd):
    """results: list over ranks of (layout, local ndarray) -> global array in natural dimension order, plus list of
    (global index, values from all ranks that hold it) for replica comparison"""
    out = np.empty(full_shape, dtype=object)
    holders = {}
    for layout, data in results:
        inv = layout.inv_dims_order
        for li in itertools.product(*[range(n) for n in data.shape]):
            g = [None] * nd
            for a in range(nd):
                g[layout.dims_order[a]] = li[a] + int(layout.starts[a])
            g = tuple(g)
            holders.setdefault(g, []).append(data[li])
            out[g] = data[li]
    return out, holders


def uniform_breaks(a, b, n):
    return [Fr(a) + (Fr(b) - Fr(a)) * Fr(i, n) for i in range(n + 1)]


def make_basis(degree, periodic, breaks, uniform=None):
    m = mods()
    knots = m['spl'].make_knots(numenv.karr(breaks), degree, periodic)
    if uniform is None:
        uniform = False
    return m['spl'].BSplines(knots, degree, periodic, uniform)


def default_constants():
    m = mods()
    c = m['constants'].Constants()
    return c
