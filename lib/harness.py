"""Common infrastructure of every check: loading the real pygyro modules from /repo's working
tree, fake mpi4py, evidence files, known findings, replay files, exit codes, parallel map."""
import argparse
import hashlib
import inspect
import json
import multiprocessing as mp
import os
import sys
import time
import traceback
import types

sys.dont_write_bytecode = True
VERIF = os.path.dirname(os.path.dirname(os.path.abspath(__file__)))
REPO = os.environ.get('VERIF_REPO', '/repo')

EXIT_OK, EXIT_VIOLATION, EXIT_INCONCLUSIVE = 0, 1, 3


# --------------------------------------------------------------------------- module loading
def install_fake_mpi(mpi_module=None):
    """mpi4py cannot be imported in this image (no libmpi): place a stand-in in sys.modules"""
    if mpi_module is None:
        from lib import simmpi
        mpi_module = simmpi.make_mpi_module()
    m = types.ModuleType('mpi4py')
    m.MPI = mpi_module
    sys.modules['mpi4py'] = m
    sys.modules['mpi4py.MPI'] = mpi_module
    return mpi_module


def repo_import(name):
    """import a pygyro module from REPO's working tree (fresh process => fresh source)"""
    if sys.path[0] != REPO:
        sys.path.insert(0, REPO)
    import importlib
    mod = importlib.import_module(name)
    f = os.path.realpath(mod.__file__)
    assert f.startswith(os.path.realpath(REPO) + os.sep), 'module %s loaded from %s' % (name, f)
    return mod


def load_copy(name, alias):
    """a second, independent instance of module `name` (same file in REPO) under another module name,
    so that one instance can carry injected stand-ins while the other stays pristine for replays"""
    import importlib.util
    orig = repo_import(name)
    spec = importlib.util.spec_from_file_location(alias, orig.__file__)
    mod = importlib.util.module_from_spec(spec)
    mod.__package__ = orig.__package__
    spec.loader.exec_module(mod)
    return mod


_FRESH_N = [0]


def fresh_copy(mod):
    """a new instance of an already imported repo module for a float replay: nothing that the symbolic run cached at class or
    module level (memo tables, lazily built constants) is visible in it"""
    _FRESH_N[0] += 1
    name = mod.__name__
    pkg = name.rsplit('.', 1)[0]
    return load_copy(name, '%s._replay_%d_%s' % (pkg, _FRESH_N[0], name.rsplit('.', 1)[1]))


def rebind(mod, replacements):
    """Injection by identity: every global of `mod` whose value *is* one of the keys of
    `replacements` (list of (object, replacement)) is rebound.  Returns the names rebound."""
    done = []
    for k, v in list(vars(mod).items()):
        for obj, rep in replacements:
            if v is obj:
                setattr(mod, k, rep)
                done.append('%s.%s' % (mod.__name__, k))
    return done


def src_info(*objs):
    out = []
    for o in objs:
        try:
            src = inspect.getsource(o)
            f = inspect.getsourcefile(o)
            line = inspect.getsourcelines(o)[1]
            name = getattr(o, '__qualname__', getattr(o, '__name__', str(o)))
            out.append(dict(function=name, file=os.path.relpath(f, REPO), line=line,
                            sha256=hashlib.sha256(src.encode()).hexdigest()[:16]))
        except Exception as e:
            out.append(dict(function=str(o), error=repr(e)))
    return out


# --------------------------------------------------------------------------- known findings
def load_known_findings(pid):
    """known_findings.txt lines:
         known: property=<id> key=<key> <free text>
         fixed: property=<id> <commit> <free text>        (suppresses nothing)"""
    out = {}
    p = os.path.join(VERIF, 'known_findings.txt')
    if not os.path.exists(p):
        return out
    for line in open(p):
        line = line.strip()
        if not line.startswith('known:'):
            continue
        parts = line.split()
        kv = dict(x.split('=', 1) for x in parts[1:3] if '=' in x)
        if kv.get('property') == pid and 'key' in kv:
            out[kv['key']] = ' '.join(parts[3:])
    return out


# --------------------------------------------------------------------------- run bookkeeping
class Run:
    """collects results of one check run and writes the evidence file"""

    def __init__(self, pid, level, argv=None):
        ap = argparse.ArgumentParser()
        ap.add_argument('--tier', default=os.environ.get('VERIF_TIER', 'quick'), choices=['quick', 'thorough'])
        ap.add_argument('--replay', default=None)
        ap.add_argument('--jobs', type=int, default=int(os.environ.get('VERIF_JOBS', '16')))
        ap.add_argument('--only', default=None, help='restrict to sub-check names (comma separated)')
        self.args = ap.parse_args(argv)
        self.pid = pid
        self.level = level
        self.tier = self.args.tier
        try:
            self.seed = int(os.environ.get('VERIF_SEED', '0'))
        except ValueError:
            self.seed = 0
        self.t0 = time.time()
        self.known = load_known_findings(pid)
        self.known_hit = {}
        self.violations = []          # (key, message, replay dict)
        self.inconclusive = []
        self.obligations = 0
        self.discharged = 0
        self.configs = 0
        self.nontrivial = set()
        self.samples = []
        self.sections = {}
        self.functions = []
        self.stubs = []
        self.assumptions = []
        self.bounds = {}
        self.outside = []
        self.stats = dict(queries=0, sat=0, unsat=0, unknown=0, solver_s=0.0, paths=0, aborted=0)
        self.canaries = []
        self.cross_setup()

    # -- recording
    def want(self, name):
        return self.args.only is None or name in self.args.only.split(',')

    def add_stats(self, d):
        for k in self.stats:
            self.stats[k] += d.get(k, 0)

    def obligation(self, ok, key=None):
        self.obligations += 1
        if ok:
            self.discharged += 1

    def sample(self, s, cap=12):
        if len(self.samples) < cap:
            self.samples.append(s)

    def violation(self, key, msg, replay):
        """a violation confirmed by concrete replay on the real code"""
        if key in self.known:
            self.known_hit.setdefault(key, msg)
            self.known_count = getattr(self, 'known_count', 0) + 1
        else:
            self.violations.append((key, msg, replay))

    def canary_miss(self, name, caught):
        """a canary without a 'detected' result: harness error, unless its edit no longer applies to the current source
        (then the code under analysis changed exactly there and the canary is recorded as not applicable)"""
        if name not in caught and '__not_applicable__' in caught:
            self.sections.setdefault('canaries_not_applicable', []).append(name)
            return
        self.inconc('canary not detected: %s' % name)

    def inconc(self, what):
        self.inconclusive.append(str(what)[:500])

    def merge(self, res):
        """merge a worker result dict (see worker_result)"""
        self.add_stats(res.get('stats', {}))
        self.obligations += res.get('obligations', 0)
        self.discharged += res.get('discharged', 0)
        self.configs += res.get('configs', 1)
        for s in res.get('nontrivial', []):
            self.nontrivial.add(s)
        for s in res.get('samples', []):
            self.sample(s)
        for v in res.get('violations', []):
            self.violation(*v)
        for i in res.get('inconclusive', []):
            self.inconc(i)

    # -- cross-solver sample (thorough tier): re-decide a deterministic sample of the discharged queries with
    #    /usr/bin/z3 (4.8.12) and cvc5; disagreement or an `(error` line makes the run inconclusive
    def cross_setup(self):
        if self.tier != 'thorough' and not os.environ.get('VERIF_CROSS'):
            return
        import shutil
        from lib import symx
        d = os.path.join(VERIF, 'scratch', 'cross', self.pid)
        shutil.rmtree(d, ignore_errors=True)
        os.makedirs(d, exist_ok=True)
        symx.CROSS_DIR = d
        self._cross_dir = d

    def cross_check(self):
        d = getattr(self, '_cross_dir', None)
        if d is None:
            return
        import glob
        import subprocess
        files = sorted(glob.glob(os.path.join(d, '*.smt2')))[:60]
        out = dict(files=len(files), agree_z3_4_8=0, agree_cvc5=0, undecided_z3_4_8=0, undecided_cvc5=0, disagree=0)
        for f in files:
            exp = open(f).readline().split(':')[1].strip()
            for name, cmd in (('z3_4_8', ['/usr/bin/z3', '-T:20', f]), ('cvc5', ['cvc5', '--tlimit=20000', f])):
                try:
                    o = subprocess.run(cmd, capture_output=True, text=True, timeout=40).stdout
                except Exception:
                    o = 'timeout'
                first = (o.strip().splitlines() or ['?'])[0].strip()
                if '(error' in o and first not in ('sat', 'unsat'):
                    out['undecided_' + name] += 1
                elif first in ('sat', 'unsat'):
                    if first == exp:
                        out['agree_' + name] += 1
                    else:
                        out['disagree'] += 1
                        self.inconc('solver disagreement on %s: z3 5.1 says %s, %s says %s' % (os.path.basename(f), exp, name, first))
                else:
                    out['undecided_' + name] += 1
        self.sections['cross_solver_sample'] = out
        import shutil
        shutil.rmtree(d, ignore_errors=True)

    # -- finishing
    def finish(self, explanation, rule):
        self.cross_check()
        wall = time.time() - self.t0
        for key, msg in sorted(self.known_hit.items()):
            print('KNOWN-FINDING: property=%s %s [%s]' % (self.pid, key, msg))
        rc = EXIT_OK
        os.makedirs(os.path.join(VERIF, 'replays'), exist_ok=True)
        seen = {}
        for key, msg, replay in self.violations:
            seen[key] = seen.get(key, 0) + 1
            if seen[key] > 3:           # at most three witnesses per failing call-site class are written out
                continue
            h = hashlib.sha256(json.dumps([key, replay], sort_keys=True, default=str).encode()).hexdigest()[:10]
            path = os.path.join(VERIF, 'replays', '%s-%s.json' % (self.pid, h))
            with open(path, 'w') as f:
                json.dump(dict(property=self.pid, key=key, message=msg, replay=replay,
                               rerun='./check %s --replay %s' % (self.pid, path)), f, indent=1, default=str)
            print('VIOLATION property=%s replay=%s' % (self.pid, path))
            print('  %s: %s' % (key, msg))
            rc = EXIT_VIOLATION
        if self.inconclusive and rc == EXIT_OK:
            rc = EXIT_INCONCLUSIVE
            for i in self.inconclusive[:20]:
                print('INCONCLUSIVE: %s' % i)
        ev = dict(
            property_id=self.pid, tier=self.tier, seed=self.seed, level=self.level,
            coverage=dict(
                evaluations=max(1, self.stats['queries'] + self.configs),
                distinct_nontrivial=len(self.nontrivial),
                rule=rule,
                samples=self.samples or ['(none)'],
                obligations=self.obligations - getattr(self, 'known_count', 0), discharged=self.discharged,
                obligations_failing_as_known_findings=getattr(self, 'known_count', 0),
                checker_cmd='./check %s --tier %s' % (self.pid, self.tier),
                trusted_base=['CPython', 'z3 %s' % _z3v(), 'lib/symx.py proxy arithmetic'] + self.stubs,
                explanation=explanation,
                exhaustive=False,
                structural_configurations=self.configs,
                solver=self.stats,
                functions_encoded=self.functions,
                stubs=self.stubs,
                bounds=self.bounds,
                outside_the_claim=self.outside,
                sections=self.sections,
                canaries=self.canaries,
                known_findings_hit=sorted(self.known_hit),
                inconclusive=self.inconclusive[:50],
            ),
            assumptions=self.assumptions,
            wall_s=round(wall, 2),
            violations=len(self.violations),
        )
        ev['coverage'].update(getattr(self, 'extra_coverage', {}))
        evdir = os.environ.get('VERIF_EVIDENCE_DIR') or os.path.join(VERIF, 'evidence')      # development runs on patched trees write elsewhere
        os.makedirs(evdir, exist_ok=True)
        with open(os.path.join(evdir, '%s.json' % self.pid), 'w') as f:
            json.dump(ev, f, indent=1, default=str)
        print('%s tier=%s: obligations %d discharged %d, configs %d, queries %d (unsat %d sat %d unknown %d), '
              'solver %.1fs, wall %.1fs -> exit %d' % (
                  self.pid, self.tier, self.obligations, self.discharged, self.configs, self.stats['queries'],
                  self.stats['unsat'], self.stats['sat'], self.stats['unknown'], self.stats['solver_s'], wall, rc))
        sys.stdout.flush()
        os._exit(rc)


def _z3v():
    try:
        import z3
        return z3.get_version_string()
    except Exception:
        return '?'


def worker_result():
    return dict(stats={}, obligations=0, discharged=0, configs=1, nontrivial=[], samples=[],
                violations=[], inconclusive=[])


ITEM_TIMEOUT = int(os.environ.get('VERIF_ITEM_TIMEOUT', '7200' if 'thorough' in sys.argv else '3000'))     # seconds of wall clock per work item (the heaviest thorough items need 10-15 min on an idle machine, several times that on a loaded one)


class ItemTimeout(BaseException):
    pass


def _call(args):
    fn, item = args
    import signal

    def on_alarm(*a):
        raise ItemTimeout()
    try:
        old = signal.signal(signal.SIGALRM, on_alarm)
        signal.alarm(ITEM_TIMEOUT)
    except Exception:
        old = None
    try:
        return fn(item)
    except CanaryNotApplicable as e:
        r = worker_result()
        r['canary_not_applicable'] = str(e)
        r['canary'] = '__not_applicable__'
        return r
    except ItemTimeout:
        r = worker_result()
        r['inconclusive'].append('work item exceeded %d s: %r' % (ITEM_TIMEOUT, str(item)[:200]))
        return r
    except BaseException as e:           # a worker must never take the pool down
        r = worker_result()
        r['inconclusive'].append('worker crashed on %r: %s' % (item, ''.join(traceback.format_exception_only(type(e), e)).strip()))
        r['trace'] = traceback.format_exc()
        return r
    finally:
        try:
            signal.alarm(0)
            if old is not None:
                signal.signal(signal.SIGALRM, old)
        except Exception:
            pass


def _worker_loop(conn, fn):
    try:
        while True:
            msg = conn.recv()
            if msg is None:
                break
            idx, item = msg
            conn.send((idx, _call((fn, item))))
    except (EOFError, KeyboardInterrupt):
        pass
    finally:
        os._exit(0)


WORKER_CRASH_RETRIES = 1


def pmap(fn, items, jobs=16, chunksize=1):
    """parallel map over forked, persistent workers; results in completion order.  Unlike multiprocessing.Pool it survives the
    death of a worker (a segmentation fault inside the solver library has been seen): the item the worker was on is retried once in
    a fresh worker and, if that dies too, comes back as an inconclusive result; all other items are unaffected."""
    items = list(items)
    if jobs <= 1 or len(items) <= 1:
        for it in items:
            yield _call((fn, it))
        return
    from multiprocessing.connection import wait
    ctx = mp.get_context('fork')
    queue = list(range(len(items)))
    attempts = {}
    workers = {}          # connection -> [process, index of the item in flight or None]

    def spawn():
        parent, child = ctx.Pipe()
        pr = ctx.Process(target=_worker_loop, args=(child, fn), daemon=True)
        pr.start()
        child.close()
        workers[parent] = [pr, None]
        return parent

    def feed(conn):
        if queue:
            idx = queue.pop(0)
            workers[conn][1] = idx
            conn.send((idx, items[idx]))
            return True
        return False
    try:
        for _ in range(min(jobs, len(items))):
            feed(spawn())
        done = 0
        while done < len(items):
            busy = [c for c, (pr, idx) in workers.items() if idx is not None]
            if not busy:
                raise RuntimeError('parallel map: items left but no worker busy')
            for conn in wait(busy):
                pr, idx = workers[conn]
                try:
                    ridx, res = conn.recv()
                except (EOFError, OSError):
                    # the worker died while on items[idx]
                    pr.join(timeout=5)
                    del workers[conn]
                    try:
                        conn.close()
                    except Exception:
                        pass
                    attempts[idx] = attempts.get(idx, 0) + 1
                    if attempts[idx] <= WORKER_CRASH_RETRIES:
                        queue.append(idx)
                    else:
                        r = worker_result()
                        r['inconclusive'].append('worker process died %d times (exit code %s) on work item %r' % (attempts[idx], pr.exitcode, str(items[idx])[:200]))
                        done += 1
                        yield r
                    feed(spawn())
                    continue
                workers[conn][1] = None
                done += 1
                yield res
                feed(conn)
    finally:
        for conn, (pr, idx) in list(workers.items()):
            try:
                conn.send(None)
            except Exception:
                pass
        for conn, (pr, idx) in list(workers.items()):
            pr.join(timeout=2)
            if pr.is_alive():
                pr.terminate()
            try:
                conn.close()
            except Exception:
                pass


class CpuTimeout(Exception):
    """the guarded block used more than its budget of this process's own CPU time"""


class cpu_limit:
    """context manager: raise CpuTimeout inside the block once the process has spent `seconds` of CPU time in it
    (ITIMER_VIRTUAL: user CPU time of this process, so machine load does not shorten the budget)"""

    def __init__(self, seconds):
        self.seconds = seconds

    def __enter__(self):
        import signal

        def _raise(sig, frame):
            raise CpuTimeout('more than %s s of CPU time' % self.seconds)
        self._old = signal.signal(signal.SIGVTALRM, _raise)
        signal.setitimer(signal.ITIMER_VIRTUAL, self.seconds)
        return self

    def __exit__(self, *exc):
        import signal
        signal.setitimer(signal.ITIMER_VIRTUAL, 0)
        signal.signal(signal.SIGVTALRM, self._old)
        return False


def in_child(fn, *args):
    """run fn(*args) in a forked child and return its (picklable) result: whatever the call does to module state, caches and
    patches stays in the child"""
    import pickle
    r, w = os.pipe()
    pid = os.fork()
    if pid == 0:
        code = 0
        try:
            os.close(r)
            try:
                out = ('ok', fn(*args))
            except Exception as e:
                out = ('exc', '%s: %s' % (type(e).__name__, str(e)[:300]))
            with os.fdopen(w, 'wb') as fh:
                pickle.dump(out, fh)
        except BaseException:
            code = 1
        finally:
            os._exit(code)
    os.close(w)
    with os.fdopen(r, 'rb') as fh:
        data = fh.read()
    os.waitpid(pid, 0)
    if not data:
        raise RuntimeError('child process died without a result')
    kind, val = pickle.loads(data)
    if kind == 'exc':
        raise RuntimeError('in child: ' + val)
    return val


class CanaryNotApplicable(Exception):
    """the source no longer contains the text a canary edits (the code under analysis changed there)"""


def mutant_module(mod, edits, name=None):
    """in-memory canary: a copy of module `mod` with textual edits applied to its source
    (never written to /repo).  Every edit must apply exactly once."""
    src = inspect.getsource(mod)
    for old, new in edits:
        if src.count(old) != 1:
            raise CanaryNotApplicable('canary edit does not apply exactly once: %r (%d)' % (old[:80], src.count(old)))
        src = src.replace(old, new)
    m = types.ModuleType(name or (mod.__name__ + '__canary'))
    m.__file__ = mod.__file__
    m.__package__ = mod.__package__
    exec(compile(src, mod.__file__ + '<canary>', 'exec'), m.__dict__)
    return m
