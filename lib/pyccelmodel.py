"""Model of the places where the Fortran that pyccel generates does not follow the Python semantics of the kernel source,
as a source-to-source transformation, plus scratch pyccel builds of the working tree for replays.

The property (C19) is about compiled artefacts; no Fortran -> SMT engine exists here.  What can be done with a solver: the
kernel source is transformed so that it *behaves in Python as the generated Fortran does* at the modelled divergences, and
the transformed kernel is run symbolically next to the untouched one.  A kernel that does not rely on Python-only behaviour
is equal to its transform on every path; where the solver finds a difference, the inputs are replayed on a REAL pyccel build
of the working tree against the interpreted module, and only a difference seen there is reported.

Modelled divergences (pyccel 2.0.1, --language=fortran):
  D1  assignment to the name of an array argument:  Python rebinds the local name (the caller's array is untouched);
      the Fortran dummy argument is assigned element-wise, i.e. the caller's array is overwritten.
  D2  value of a loop variable after the loop:  `for i in range(a, b)` leaves i = b-1 in Python (or leaves i untouched for
      an empty range); a Fortran DO loop that runs to completion leaves i = b (one step past the last value; a for an empty range).
      Same for the counter of `for i, x in enumerate(arr)`.
  D3  a negative, non-literal index:  Python counts from the end (`vals[i - s]` with i - s < 0 reads vals[n + i - s]); the generated
      Fortran has no such wrap (a literal `x[-1]` is translated at compile time, an expression is not) and reads or writes outside
      the array.  In the model such an access raises PyccelOutOfBounds.
Everything else (integer and floating floor division, modulo, slices, stack arrays, reassociation) is NOT modelled.
"""
import ast
import importlib.machinery
import importlib.util
import inspect
import os
import shutil
import subprocess
import sys
import tempfile
import types

import numpy as np

BUILD_ORDER = [('splines', 'spline_eval_funcs'), ('splines', 'cubic_uniform_spline_eval_funcs'), ('initialisation', 'initialiser_funcs'),
               ('advection', 'accelerated_advection_steps'), ('poisson', 'poisson_tools')]
FLAGS = ' -Wall -O3 -fPIC -fstack-arrays'          # pygyro/*/Makefile


def _is_array_annotation(a):
    return isinstance(a, ast.Constant) and isinstance(a.value, str) and '[' in a.value.replace('Final[', '', 1)


class PyccelOutOfBounds(Exception):
    """an index expression is negative: Python wraps it, the generated Fortran does not"""


def _pyccel_index(i):
    """index check of the model (D3); forks on a symbolic index through its comparison"""
    if i < 0:
        raise PyccelOutOfBounds('negative index %s: Python counts from the end, the pyccel build reads / writes outside the array' % (i,))
    return i


def _is_literal_index(node):
    if isinstance(node, ast.Constant):
        return True
    if isinstance(node, ast.UnaryOp) and isinstance(node.op, (ast.USub, ast.UAdd)) and isinstance(node.operand, ast.Constant):
        return True
    return False


def _wrap_index(node, notes, fn):
    """every non-literal scalar index"""
    if isinstance(node, ast.Slice) or _is_literal_index(node):
        return node
    if isinstance(node, ast.Tuple):
        return ast.Tuple(elts=[_wrap_index(e, notes, fn) for e in node.elts], ctx=node.ctx)
    if isinstance(node, ast.Constant) or (isinstance(node, ast.Call) and isinstance(node.func, ast.Name) and node.func.id == '_pyccel_index'):
        return node
    return ast.Call(func=ast.Name(id='_pyccel_index', ctx=ast.Load()), args=[node], keywords=[])


class _Transformer(ast.NodeTransformer):
    def __init__(self):
        self.notes = []

    def visit_FunctionDef(self, node):
        array_args = {a.arg for a in node.args.args if a.annotation is not None and _is_array_annotation(a.annotation)}
        outside = _loads_outside_binding_loops(node)
        fn = node.name

        class Inner(ast.NodeTransformer):
            def visit_FunctionDef(inner, n):        # nested functions: not in the kernels
                return n

            def visit_Assign(inner, n):
                inner.generic_visit(n)
                if len(n.targets) == 1 and isinstance(n.targets[0], ast.Name) and n.targets[0].id in array_args:
                    self.notes.append('D1 %s: assignment to array argument %s (line %d)' % (fn, n.targets[0].id, n.lineno))
                    tgt = ast.Subscript(value=ast.Name(id=n.targets[0].id, ctx=ast.Load()), slice=ast.Constant(value=Ellipsis), ctx=ast.Store())
                    return ast.copy_location(ast.Assign(targets=[tgt], value=n.value), n)
                return n

            def visit_Subscript(inner, n):
                inner.generic_visit(n)
                n.slice = _wrap_index(n.slice, self.notes, fn)
                return n

            def visit_For(inner, n):
                inner.generic_visit(n)
                var, end = None, None
                it = n.iter
                if isinstance(it, ast.Call) and isinstance(it.func, ast.Name) and it.func.id == 'range' and isinstance(n.target, ast.Name):
                    var = n.target.id
                    a = it.args
                    if len(a) == 1:
                        lo, hi, st = ast.Constant(value=0), a[0], 1
                    elif len(a) == 2:
                        lo, hi, st = a[0], a[1], 1
                    elif len(a) == 3 and isinstance(a[2], ast.Constant) and a[2].value in (1, -1):
                        lo, hi, st = a[0], a[1], a[2].value
                    elif len(a) == 3 and isinstance(a[2], ast.UnaryOp) and isinstance(a[2].op, ast.USub) and isinstance(a[2].operand, ast.Constant) and a[2].operand.value == 1:
                        lo, hi, st = a[0], a[1], -1
                    else:
                        lo = None
                    if lo is not None:
                        cmp_ = ast.Compare(left=hi, ops=[ast.Gt() if st == 1 else ast.Lt()], comparators=[lo])
                        end = ast.IfExp(test=cmp_, body=hi, orelse=lo)
                    elif var in outside:
                        self.notes.append('UNMODELLED %s: loop variable %s of a range with a general step is read after the loop (line %d)' % (fn, var, n.lineno))
                        var = None
                elif (isinstance(it, ast.Call) and isinstance(it.func, ast.Name) and it.func.id == 'enumerate' and isinstance(n.target, ast.Tuple)
                      and len(n.target.elts) == 2 and isinstance(n.target.elts[0], ast.Name) and len(it.args) == 1):
                    var = n.target.elts[0].id
                    end = ast.Call(func=ast.Name(id='len', ctx=ast.Load()), args=[it.args[0]], keywords=[])
                if var is not None and end is not None and var in outside:
                    self.notes.append('D2 %s: loop variable %s is read after its loop (line %d)' % (fn, var, n.lineno))
                    fix = ast.Assign(targets=[ast.Name(id=var, ctx=ast.Store())], value=end)
                    n.orelse = list(n.orelse) + [fix]
                return n
        new = Inner().generic_visit(node)
        ast.fix_missing_locations(new)
        return new


def _loads_outside_binding_loops(fn):
    """names read somewhere in the function while not inside (the body of) a for loop that binds them"""
    found = set()

    def targets(t):
        if isinstance(t, ast.Name):
            return {t.id}
        if isinstance(t, (ast.Tuple, ast.List)):
            s = set()
            for e in t.elts:
                s |= targets(e)
            return s
        return set()

    def walk(node, bound):
        if isinstance(node, ast.For):
            walk(node.iter, bound)
            b2 = bound | targets(node.target)
            for s in node.body:
                walk(s, b2)
            for s in node.orelse:
                walk(s, bound)
            return
        if isinstance(node, ast.Name) and isinstance(node.ctx, ast.Load) and node.id not in bound:
            found.add(node.id)
        for c in ast.iter_child_nodes(node):
            walk(c, bound)
    for s in fn.body:
        walk(s, frozenset())
    return found


def transform(src):
    tree = ast.parse(src)
    tr = _Transformer()
    tree = tr.visit(tree)
    ast.fix_missing_locations(tree)
    return ast.unparse(tree), tr.notes


def model_module(ref_mod, name):
    """module that behaves in Python as the pyccel build of `ref_mod` does at the modelled divergences"""
    src = inspect.getsource(ref_mod)
    new_src, notes = transform(src)
    m = types.ModuleType(name)
    m.__file__ = ref_mod.__file__
    m.__package__ = ref_mod.__package__
    m.__dict__['_pyccel_index'] = _pyccel_index
    exec(compile(new_src, ref_mod.__file__ + '<pyccel-model>', 'exec'), m.__dict__)
    for v in vars(m).values():
        if inspect.isfunction(v) and v.__module__ is None:
            v.__module__ = name
    m.__pyccel_model_notes__ = notes
    return m


# ---------------------------------------------------------------------------------------------------- real scratch builds
_BUILD = {}


def pyccel_exe():
    cand = os.path.join(os.path.dirname(sys.executable), 'pyccel')
    if os.path.exists(cand):
        return cand
    cand = '/venv/bin/pyccel'
    if os.path.exists(cand):
        return cand
    return shutil.which('pyccel')


def _build_one(pyccel, cwd, m):
    res = subprocess.run([pyccel, m + '.py', '--language=fortran', '--flags', FLAGS], cwd=cwd, capture_output=True, text=True, timeout=900)
    so = [f for f in os.listdir(cwd) if f.startswith(m + '.') and f.endswith('.so')]
    return (res.returncode == 0 and bool(so)), (so[0] if so else None), (res.stdout[-1500:] + res.stderr[-1500:])


def build_tree(repo):
    """scratch pyccel build (flags and order of the Makefiles) of the five kernel modules of the working tree `repo`.
    Returns dict(status='ok'|'no-toolchain'|'failed', modules={name: extension module}, log=..., failed=name)"""
    key = os.path.abspath(repo)
    if key in _BUILD:
        return _BUILD[key]
    out = dict(status='ok', modules={}, log='', failed=None, seconds=0.0)
    import time
    t0 = time.time()
    pyccel = pyccel_exe()
    tmp = tempfile.mkdtemp(prefix='verif_c19_build_')
    try:
        if pyccel is None or shutil.which('gfortran') is None:
            out['status'] = 'no-toolchain'
            out['log'] = 'pyccel or gfortran not found'
            _BUILD[key] = out
            return out
        # control: the toolchain builds a trivial kernel here (otherwise a failure below says nothing about the tree)
        ctl = os.path.join(tmp, 'control')
        os.makedirs(ctl)
        with open(os.path.join(ctl, 'ctl_kernel.py'), 'w') as fh:
            fh.write("def ctl_add(a: 'float', b: 'float') -> 'float':\n    return a + b\n")
        ok, so, log = _build_one(pyccel, ctl, 'ctl_kernel')
        if not ok:
            out['status'] = 'no-toolchain'
            out['log'] = 'control build failed: ' + log
            _BUILD[key] = out
            return out
        pkg = os.path.join(tmp, 'pygyro')
        for d in ('', 'splines', 'initialisation', 'advection', 'poisson'):
            os.makedirs(os.path.join(pkg, d), exist_ok=True)
            open(os.path.join(pkg, d, '__init__.py'), 'w').close()
        for d, m in BUILD_ORDER:
            shutil.copy(os.path.join(repo, 'pygyro', d, m + '.py'), os.path.join(pkg, d, m + '.py'))
        for d, m in BUILD_ORDER:
            ok, so, log = _build_one(pyccel, os.path.join(pkg, d), m)
            if not ok:
                out['status'] = 'failed'
                out['failed'] = '%s/%s.py' % (d, m)
                out['log'] = log
                break
            path = os.path.join(pkg, d, so)
            loader = importlib.machinery.ExtensionFileLoader(m, path)
            spec = importlib.util.spec_from_loader(m, loader)
            mod = importlib.util.module_from_spec(spec)
            loader.exec_module(mod)
            out['modules'][m] = mod
    except Exception as e:
        out['status'] = 'no-toolchain'
        out['log'] = '%s: %s' % (type(e).__name__, e)
    finally:
        shutil.rmtree(tmp, ignore_errors=True)          # the loaded extension modules stay mapped
    out['seconds'] = round(time.time() - t0, 1)
    _BUILD[key] = out
    return out


class CompiledProxy:
    """calls the functions of a pyccel extension module with the arguments of a float scenario: every argument is converted
    to what the kernel's annotation asks for (float64 / int64 arrays, float, int, bool); array arguments are copied back
    afterwards, so that in-place results AND unexpected writes to inputs are seen by the caller"""

    def __init__(self, ext, ref_mod):
        self._ext, self._ref = ext, ref_mod
        self.__name__ = 'pyccel-build:' + ref_mod.__name__

    def __getattr__(self, name):
        fn = getattr(self._ext, name)
        ref = getattr(self._ref, name, None)
        if ref is None or not inspect.isfunction(ref):
            return fn
        params = list(inspect.signature(ref).parameters.values())

        def call(*args):
            conv, back = [], []
            for p, a in zip(params, args):
                ann = p.annotation if isinstance(p.annotation, str) else ''
                base = ann.replace('Final[', '').rstrip(']') if ann.startswith('Final[') else ann
                if '[' in base:
                    dt = np.int64 if base.startswith('int') else (np.complex128 if base.startswith('complex') else np.float64)
                    if isinstance(a, np.ndarray) and a.dtype == dt and a.flags['C_CONTIGUOUS']:
                        conv.append(a)
                    else:
                        src = np.asarray(a)
                        if dt is np.complex128:
                            arr = np.array([complex(x) for x in src.ravel()], dtype=dt).reshape(src.shape)
                        elif dt is np.int64:
                            arr = np.array([int(x) for x in src.ravel()], dtype=dt).reshape(src.shape)
                        else:
                            arr = np.array([0.0 if x is None else float(x) for x in src.ravel()], dtype=dt).reshape(src.shape)
                        conv.append(arr)
                        if isinstance(a, np.ndarray):
                            back.append((a, arr))
                elif base == 'int':
                    conv.append(int(a))
                elif base == 'bool':
                    conv.append(bool(a))
                elif base == 'float':
                    conv.append(float(a))
                elif base == 'complex':
                    conv.append(complex(a))
                else:
                    conv.append(a)
            out = fn(*conv)
            for a, arr in back:
                a[...] = arr
            return out
        return call
