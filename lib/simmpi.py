"""simmpi -- in-process stand-in for mpi4py.MPI.

mpi4py cannot be imported in this image (no libmpi).  Every simulated rank runs the *same real
pygyro code* in its own thread; exactly one thread runs at a time (deterministic baton: the
lowest-numbered runnable rank), a rank blocks at a collective until every member of the
communicator has arrived, the last arriver performs the data movement.  The same simulator is used
  * symbolically (buffers are symnp.SymArr, counts are z3 terms; `if`s below fork through symx) and
  * concretely (buffers are numpy arrays) for replaying counterexamples on the real code.

Contract modelled = MPI standard semantics of blocking collectives: calls on one communicator match
in call order; mismatching kinds/roots/counts are errors (MPIMismatch); if no rank can run and not
all have finished the run is a Deadlock.  Because the schedule is deterministic and collectives are
the only interaction, "matching on every communicator in call order + consistent order across
communicators" is independent of arrival order.
"""
import threading

import numpy as _np

from . import symx


class MPIMismatch(Exception):
    pass


class Deadlock(Exception):
    pass


class _Kill(BaseException):
    pass


DOUBLE = 'MPI.DOUBLE'
MIN, MAX, SUM, LAND, PROD = 'MPI.MIN', 'MPI.MAX', 'MPI.SUM', 'MPI.LAND', 'MPI.PROD'


class _CommState:
    def __init__(self, cid, members):
        self.cid = cid
        self.members = list(members)          # world ranks in communicator-rank order
        self.slots = {}
        self.results = {}


class World:
    def __init__(self, size):
        self.size = size
        self.cv = threading.Condition()
        self.current = None
        self.state = ['ready'] * size
        self.failed = None
        self.cstates = {}
        self.trace = [[] for _ in range(size)]       # per world rank: (op, cid, root, dtype, count)
        self.waiting_on = [None] * size
        self.nsplit = 0

    # ---- communicator state shared by all members
    def cstate(self, cid, members):
        cs = self.cstates.get(cid)
        if cs is None:
            cs = _CommState(cid, members)
            self.cstates[cid] = cs
        return cs

    # ---- scheduler
    def _schedule(self):
        """called with cv held by the thread giving up the baton"""
        for r in range(self.size):
            if self.state[r] == 'ready':
                self.current = r
                self.cv.notify_all()
                return
        self.current = None
        if any(s == 'blocked' for s in self.state) and self.failed is None:
            desc = ['rank %d waits in %s' % (r, self.waiting_on[r]) for r in range(self.size) if self.state[r] == 'blocked']
            self.failed = Deadlock('; '.join(desc))
        self.cv.notify_all()

    def _wait_turn(self, me):
        while self.current != me and self.failed is None:
            self.cv.wait()
        if self.failed is not None:
            raise _Kill()

    def run(self, fn):
        """run fn(comm_world) on every rank; returns list of results (or raises the first failure)"""
        results = [None] * self.size
        ctx = symx.Ctx.cur

        def target(r):
            with self.cv:
                try:
                    self._wait_turn(r)
                except _Kill:
                    self.state[r] = 'done'
                    return
            try:
                results[r] = fn(Comm(self, ('world',), list(range(self.size)), r))
            except _Kill:
                pass
            except BaseException as e:            # Exception or engine Abort: first failure wins
                with self.cv:
                    if self.failed is None:
                        self.failed = e
                        self.failed_rank = r
            with self.cv:
                self.state[r] = 'done'
                self._schedule()

        threads = [threading.Thread(target=target, args=(r,), daemon=True) for r in range(self.size)]
        for t in threads:
            t.start()
        with self.cv:
            self.current = 0
            self.cv.notify_all()
        for t in threads:
            t.join()
        symx.Ctx.cur = ctx
        if self.failed is not None:
            raise self.failed
        return results

    # ---- a collective
    def collective(self, comm, kind, payload, tr):
        me = comm.world_rank
        cs = comm.cs
        seq = comm.seq
        comm.seq += 1
        self.trace[me].append(tr)
        with self.cv:
            slot = cs.slots.setdefault(seq, {})
            slot[comm.rank] = (kind, payload)
            complete = len(slot) == len(cs.members)
            if not complete:
                self.state[me] = 'blocked'
                self.waiting_on[me] = '%s#%d on %s' % (kind, seq, cs.cid)
                self._schedule()
                self._wait_turn(me)
        if complete:
            # all members have arrived and are blocked: perform the operation on their behalf
            try:
                cs.results[seq] = _perform(self, cs, slot)
            except _Kill:
                raise
            except BaseException as e:
                with self.cv:
                    if self.failed is None:
                        self.failed = e
                    self.cv.notify_all()
                raise _Kill()
            with self.cv:
                for wr in cs.members:
                    if self.state[wr] == 'blocked':
                        self.state[wr] = 'ready'
                self.state[me] = 'ready'
                self._schedule()
                self._wait_turn(me)
        return cs.results[seq][comm.rank]


def _kinds_agree(cs, slot):
    kinds = set(k for k, _ in slot.values())
    if len(kinds) != 1:
        raise MPIMismatch('mismatching collectives on %s: %s' % (cs.cid, sorted(kinds)))
    return kinds.pop()


def _same(vals, what, cs):
    v0 = vals[0]
    for v in vals[1:]:
        if not _truth(v == v0):
            raise MPIMismatch('%s differs between members of %s: %s vs %s' % (what, cs.cid, v0, v))
    return v0


def _truth(c):
    return c if isinstance(c, bool) else bool(c)


def _bufof(b):
    """mpi4py buffer spec: array or (array, datatype) or (array, counts, displs, datatype)"""
    if isinstance(b, (tuple, list)):
        return b[0], (b[-1] if len(b) > 1 else None), b
    # a bare numpy array: mpi4py derives the MPI datatype from the array's dtype (object arrays are the symbolic model: unknown)
    dt = None
    if isinstance(b, _np.ndarray) and b.dtype != object:
        dt = b.dtype.name
    return b, dt, None


def _perform(world, cs, slot):
    kind = _kinds_agree(cs, slot)
    p = len(cs.members)
    P = [slot[r][1] for r in range(p)]
    if kind == 'Barrier':
        return [None] * p
    if kind == 'Alltoall':
        sends = [x['send'] for x in P]
        recvs = [x['recv'] for x in P]
        if all('sdtype' in x for x in P):
            _same([x['sdtype'] for x in P] + [x['rdtype'] for x in P], 'Alltoall datatype', cs)
        n = _same([s.size for s in sends], 'Alltoall send count', cs)
        for r in range(p):
            if not _truth(recvs[r].size == n):
                raise MPIMismatch('Alltoall receive count %s != send count %s' % (recvs[r].size, n))
        if not _truth(n % p == 0):
            raise MPIMismatch('Alltoall count %s not divisible by communicator size %d' % (n, p))
        c = n // p
        for i in range(p):
            for j in range(p):
                recvs[i][j * c:(j + 1) * c] = sends[j][i * c:(i + 1) * c]
        return [None] * p
    if kind == 'Allgather':
        sends = [x['send'] for x in P]
        recvs = [x['recv'] for x in P]
        _same([x['sdtype'] for x in P] + [x['rdtype'] for x in P], 'Allgather datatype', cs)
        n = _same([s.size for s in sends], 'Allgather send count', cs)
        for r in range(p):
            if not _truth(recvs[r].size == n * p):
                raise MPIMismatch('Allgather receive count %s != %d * send count %s' % (recvs[r].size, p, n))
        for i in range(p):
            for j in range(p):
                recvs[i][j * n:(j + 1) * n] = sends[j][0:n]
        return [None] * p
    if kind in ('reduce', 'allreduce'):
        op = _same([x['op'] for x in P], 'reduction op', cs)
        vals = [x['val'] for x in P]
        acc = vals[0]
        for v in vals[1:]:
            acc = _combine(op, acc, v)
        if kind == 'allreduce':
            return [acc] * p
        root = _same([x['root'] for x in P], 'reduce root', cs)
        return [acc if r == root else None for r in range(p)]
    if kind == 'Reduce':
        op = _same([x['op'] for x in P], 'reduction op', cs)
        root = _same([x['root'] for x in P], 'Reduce root', cs)
        n = _same([_np.size(x['send']) for x in P], 'Reduce count', cs)
        acc = _np.array(P[0]['send'], dtype=object if _np.asarray(P[0]['send']).dtype == object else None, copy=True)
        for x in P[1:]:
            s = _np.asarray(x['send'])
            flat = acc.reshape(-1)
            sf = s.reshape(-1)
            for i in range(flat.size):
                flat[i] = _combine(op, flat[i], sf[i])
        rb = P[root]['recv']
        if rb is None:
            raise MPIMismatch('Reduce without receive buffer on root')
        if _np.size(rb) != n:
            raise MPIMismatch('Reduce receive count %d != %d' % (_np.size(rb), n))
        _np.asarray(rb).reshape(-1)[:] = acc.reshape(-1)
        return [None] * p
    if kind == 'bcast':
        root = _same([x['root'] for x in P], 'bcast root', cs)
        return [P[root]['obj']] * p
    if kind == 'gather':
        root = _same([x['root'] for x in P], 'gather root', cs)
        objs = [x['obj'] for x in P]
        return [list(objs) if r == root else None for r in range(p)]
    if kind == 'Gatherv':
        root = _same([x['root'] for x in P], 'Gatherv root', cs)
        rb, counts, displs, dt = P[root]['recvspec']
        for r in range(p):
            s = _np.asarray(P[r]['send'])
            if int(counts[r]) != s.size:
                raise MPIMismatch('Gatherv count for rank %d: root expects %d, rank sends %d' % (r, int(counts[r]), s.size))
            if int(displs[r]) + s.size > rb.size:
                raise MPIMismatch('Gatherv block of rank %d beyond receive buffer' % r)
            rb[int(displs[r]):int(displs[r]) + s.size] = s
        return [None] * p
    if kind == 'Split':
        world.nsplit += 1
        groups = {}
        for r in range(p):
            groups.setdefault(P[r]['color'], []).append((P[r]['key'], r))
        out = [None] * p
        for color, lst in groups.items():
            lst.sort()
            members = [cs.members[r] for _, r in lst]
            cid = cs.cid + ('split%d' % world.nsplit, color)
            for newrank, (_, r) in enumerate(lst):
                out[r] = (cid, members, newrank)
        return out
    raise NotImplementedError(kind)


def _combine(op, a, b):
    if op == SUM:
        return a + b
    if op == PROD:
        return a * b
    if op == LAND:
        return _land(a, b)
    if op in (MIN, MAX):
        # +-inf are the neutral elements ranks without data contribute
        for x, y in ((a, b), (b, a)):
            if isinstance(x, float) and x == (float('inf') if op == MIN else float('-inf')):
                return y
        if isinstance(a, symx.Sym) or isinstance(b, symx.Sym):
            c = (a <= b) if op == MIN else (a >= b)
            return symx.ite(c, a, b)
        return min(a, b) if op == MIN else max(a, b)
    raise NotImplementedError(op)


def _land(a, b):
    if isinstance(a, symx.SBool) or isinstance(b, symx.SBool):
        return a & b
    return bool(a) and bool(b)


class Comm:
    """stand-in for mpi4py.MPI.Comm / Cartcomm"""

    def __init__(self, world, cid, members, rank, dims=None):
        self.world = world
        self.cid = cid
        self.cs = world.cstate(cid, members)
        self.rank = rank
        self.world_rank = members[rank]
        self.size = len(members)
        self.seq = 0
        self.dims = dims

    # identity: two handles of the same communicator compare equal (MPI_Comm_compare == IDENT)
    def __eq__(self, o):
        return isinstance(o, Comm) and o.cid == self.cid

    def __ne__(self, o):
        return not self.__eq__(o)

    def __hash__(self):
        return hash(self.cid)

    def __repr__(self):
        return 'Comm%s[%d/%d]' % (self.cid, self.rank, self.size)

    def Get_rank(self): return self.rank
    def Get_size(self): return self.size

    # ---- topology (local operations in this simulator; Create_cart/Sub are collective in MPI but
    #      carry no data and are called unconditionally in pygyro)
    def Create_cart(self, dims, periods=None, reorder=False):
        dims = [int(d) for d in _np.atleast_1d(dims)]
        n = 1
        for d in dims:
            n *= d
        if n != self.size:
            raise MPIMismatch('Create_cart dims %s do not multiply to communicator size %d' % (dims, self.size))
        self.world.trace[self.world_rank].append(('Create_cart', self.cid, None, None, tuple(dims)))
        # every call creates a new communicator (as MPI_Cart_create does); all members call it in the same order
        self.ncart = getattr(self, 'ncart', 0) + 1
        return Comm(self.world, self.cid + ('cart%d' % self.ncart, tuple(dims)), self.cs.members, self.rank, dims=dims)

    def Get_coords(self, rank):
        c = []
        r = int(rank)
        for d in reversed(self.dims):
            c.append(r % d)
            r //= d
        return list(reversed(c))

    def Sub(self, keep):
        keep = [bool(k) for k in keep]
        me = self.Get_coords(self.rank)
        members = []
        for r in range(self.size):
            c = self.Get_coords(r)
            if all(k or c[i] == me[i] for i, k in enumerate(keep)):
                members.append(r)
        dropped = tuple((i, me[i]) for i, k in enumerate(keep) if not k)
        cid = self.cid + ('sub', tuple(keep), dropped)
        self.world.trace[self.world_rank].append(('Sub', self.cid, None, None, tuple(keep)))
        return Comm(self.world, cid, [self.cs.members[r] for r in members], members.index(self.rank),
                    dims=[d for d, k in zip(self.dims, keep) if k])

    def Split(self, color=0, key=0):
        cid, members, newrank = self.world.collective(
            self, 'Split', dict(color=int(color), key=int(key)), ('Split', self.cid, None, None, None))
        return Comm(self.world, cid, members, newrank)

    # ---- collectives
    def Barrier(self):
        self.world.collective(self, 'Barrier', {}, ('Barrier', self.cid, None, None, None))

    def Alltoall(self, send, recv):
        s, sdt, _ = _bufof(send)
        r, rdt, _ = _bufof(recv)
        self.world.collective(self, 'Alltoall', dict(send=s, recv=r, sdtype=sdt, rdtype=rdt), ('Alltoall', self.cid, None, sdt, s.size))

    def Allgather(self, send, recv):
        s, sdt, _ = _bufof(send)
        r, rdt, _ = _bufof(recv)
        self.world.collective(self, 'Allgather', dict(send=s, recv=r, sdtype=sdt, rdtype=rdt),
                              ('Allgather', self.cid, None, sdt, s.size))

    def reduce(self, val, op=SUM, root=0):
        return self.world.collective(self, 'reduce', dict(val=val, op=op, root=root), ('reduce', self.cid, root, op, 1))

    def allreduce(self, val, op=SUM):
        return self.world.collective(self, 'allreduce', dict(val=val, op=op), ('allreduce', self.cid, None, op, 1))

    def Reduce(self, send, recv, op=SUM, root=0):
        s, _, _ = _bufof(send)
        r = None if recv is None else _bufof(recv)[0]
        self.world.collective(self, 'Reduce', dict(send=s, recv=r, op=op, root=root),
                              ('Reduce', self.cid, root, op, int(_np.size(s))))

    def bcast(self, obj, root=0):
        return self.world.collective(self, 'bcast', dict(obj=obj, root=root), ('bcast', self.cid, root, None, None))

    def gather(self, obj, root=0):
        return self.world.collective(self, 'gather', dict(obj=obj, root=root), ('gather', self.cid, root, None, None))

    def Gatherv(self, send, recv, root=0):
        s, _, _ = _bufof(send)
        spec = None
        if self.rank == root:
            spec = recv
        self.world.collective(self, 'Gatherv', dict(send=s, recvspec=spec, root=root),
                              ('Gatherv', self.cid, root, None, int(_np.size(s))))


def make_mpi_module():
    import types
    m = types.ModuleType('mpi4py.MPI')
    m.Comm = Comm
    m.DOUBLE = DOUBLE
    m.MIN, m.MAX, m.SUM, m.LAND, m.PROD = MIN, MAX, SUM, LAND, PROD
    m.COMM_WORLD = None          # set per simulated rank by the harness where the code under analysis reads it
    m.MPIMismatch = MPIMismatch
    m.Deadlock = Deadlock
    return m
