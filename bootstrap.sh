#!/bin/sh
# Idempotent: creates /verif/.venv = overlay on /venv (numpy/scipy/pygyro deps) + z3-solver, cvc5, jsonschema
# from the offline wheelhouse.  Nothing is fetched from the network.
set -e
HERE="$(cd "$(dirname "$0")" && pwd)"
V="$HERE/.venv"
if [ -x "$V/bin/python" ] && "$V/bin/python" -c "import z3, numpy, scipy, networkx" >/dev/null 2>&1; then
    exit 0
fi
LOCK="$HERE/.venv.lock"
exec 9>"$LOCK"
flock 9
if [ -x "$V/bin/python" ] && "$V/bin/python" -c "import z3, numpy, scipy, networkx" >/dev/null 2>&1; then
    exit 0
fi
rm -rf "$V"
/venv/bin/python -m venv "$V"
SP="$V/lib/python3.12/site-packages"
echo "import site; site.addsitedir('/venv/lib/python3.12/site-packages')" > "$SP/_base.pth"
PIP_NO_INDEX=1 "$V/bin/pip" install -q --no-index --find-links /opt/veriftools/wheels z3-solver cvc5 jsonschema networkx >/dev/null
"$V/bin/python" -c "import z3, numpy, scipy; print('bootstrap ok: z3', z3.get_version_string(), 'numpy', numpy.__version__)"
