"""C05 -- results do not depend on the process decomposition (wiring level).

Decided here: every grid-level operator hands to its per-slice kernel the parameters of that slice's own *global*
coordinates, on every rank of every process grid.  The real grid-level loops (FluxSurfaceAdvection.gridStep,
VParallelAdvection.gridStep / gridStepKeepGradient, PoloidalAdvection.gridStep / gridStep_SplinesUnchanged, the three
layout-specific initialisers) run on real Grid / LayoutHandler / LayoutSwapper objects over object arrays; field data
are symbolic values tagged by global index, the per-slice kernels are replaced by recorders (advection steps) or run in
exact arithmetic with exp/tanh/sqrt/cos uninterpreted (initialisers), and z3 decides that the parameters each slice
receives equal those computed from its global coordinates (table rows symbolic in dt).
Not decided: equality of floating-point results (reduction order, rounding); the quasi-neutrality pipeline (C14/C15 N/A).
"""
import itertools
import json
import sys
import time
import warnings
from fractions import Fraction as Fr

import numpy as np
import z3

from lib import symx, numenv, simmpi, dist
from lib import harness as H
from lib.symx import K, SReal, zt, toreal
from checks.c07 import apply_canary, undo_canary
from checks.c13 import TwistConstants, R0, TWO_PI

PID = 'C05'
LAY4 = {'flux_surface': [0, 3, 1, 2], 'v_parallel': [0, 2, 1, 3], 'poloidal': [3, 2, 1, 0]}
LAY3 = [{'v_parallel_2d': [0, 2, 1], 'mode_solve': [1, 2, 0]}, {'v_parallel_1d': [0, 2, 1]}, {'poloidal': [2, 1, 0]}]
SHAPE = (3, 4, 7, 3)        # nr, ntheta, nz, nv   (nz > 6 for the Lagrange stencil)


class TagField:
    """symbolic field whose entries carry their global index: value = SReal('name_i_j_k_l')"""

    def __init__(self, name, shape):
        self.arr = dist.symbolic_field(name, shape)
        self.index = {}
        for idx in itertools.product(*[range(n) for n in shape]):
            self.index[self.arr[idx].t.decl().name()] = idx

    def where(self, v):
        return self.index[v.t.decl().name()]


def coords(shape):
    nr, nq, nz, nv = shape
    r = [Fr(1) + Fr(i, 2) for i in range(nr)]
    q = [TWO_PI * Fr(i, nq) for i in range(nq)]
    z = [Fr(1, 2) * k for k in range(nz)]
    v = [Fr(-3, 2) + Fr(3 * i, 2) for i in range(nv)]          # contains v = 0: the foot of that characteristic is a z node
    return r, q, z, v


def work(item):
    op, nprocs, iota_mode, canary = item[:4]
    SHAPE = item[4] if len(item) > 4 else globals()['SHAPE']
    res = H.worker_result()
    m = dist.mods()
    adv = H.repo_import('pygyro.advection.advection')
    acc = H.repo_import('pygyro.advection.accelerated_advection_steps')
    ini = H.repo_import('pygyro.initialisation.initialiser')
    t0 = time.time()
    allm = dict(m, adv=adv, acc=acc, ini=ini)
    if canary:
        apply_canary(allm, canary)
    numenv.enable(extra_modules=[(adv, None), (acc, None), (m['init_funcs'], None)])
    symx.set_bv(None)
    symx.DIV_ZERO = 'poison'
    nr, nq, nz, nv = SHAPE
    r, q, z, v = coords(SHAPE)
    twists = [Fr(0)] * nr if iota_mode == 'zero' else [[Fr(3, 4), Fr(5, 12), Fr(8, 15), Fr(0)][i % 4] for i in range(nr)]
    nranks = int(np.prod(nprocs))
    nprocs_box = [tuple(nprocs)]
    st = {}

    def body(ctx):
        qb = dist.make_basis(3, True, [TWO_PI * Fr(i, nq) for i in range(nq + 1)], uniform=True)
        zb = dist.make_basis(3, True, [Fr(1, 2) * k for k in range(nz + 1)], uniform=True)
        rb = dist.make_basis(3, False, dist.uniform_breaks(1, 2, nr - 3 if nr > 3 else 1), uniform=False) if False else None
        eta = [numenv.karr(r), numenv.karr(q), numenv.karr(z), numenv.karr(v)]
        consts = TwistConstants(r, twists)
        for k_, val in dict(m=3, n=1, eps=Fr(1, 1000), CN0=Fr(1, 10), kN0=Fr(11, 200), deltaRN0=Fr(29, 10), rp=Fr(3, 2), CTi=Fr(1), kTi=Fr(27, 100),
                            deltaRTi=Fr(29, 20), deltaR=Fr(8), B0=Fr(1)).items():
            setattr(consts, k_, K(val) if not isinstance(val, int) else val)
        F = TagField('f', SHAPE)
        P = TagField('p', SHAPE[:3])
        dt = z3.Real('dt')
        # window in which no displacement reaches a cell boundary: the floors are forced, one path for all dt in it
        ctx.assume(z3.And(dt > 0, dt < z3.RealVal(Fr(1, 8))))
        st.update(F=F, P=P, dt=dt, eta=eta, consts=consts, qb=qb, zb=zb)

        def rankfn(comm):
            with warnings.catch_warnings():
                warnings.simplefilter('ignore')
                np_ = nprocs_box[0]
                h4 = m['layout'].getLayoutHandler(comm, dict(LAY4), list(np_), eta)
                sw = m['layout'].LayoutSwapper(comm, [dict(d) for d in LAY3], [list(np_), np_[0], np_[1]], eta[:3], 'v_parallel_1d')
            rec = []
            if op == 'flux':
                g = m['grid'].Grid(eta, [None, qb, zb, None], h4, 'flux_surface', comm=comm, dtype=object)
                dist.fill_grid(g, F.arr)
                fa = adv.FluxSurfaceAdvection(eta, [qb, zb], h4.getLayout('flux_surface'), SReal(dt), consts)

                def step(f, cIdx, rIdx=0):
                    rec.append((F.where(f[0, 0]), list(fa._shifts[rIdx, cIdx]), list(fa._thetaShifts[rIdx, cIdx]), list(fa._lagrangeCoeffs[rIdx, cIdx])))
                fa.step = step
                fa.gridStep(g)
            elif op in ('vpar', 'vpar_keep', 'vpar_keep0'):
                g = m['grid'].Grid(eta, [None] * 4, h4, 'v_parallel', comm=comm, dtype=object)
                ph = m['grid'].Grid(eta[:3], [None] * 3, sw, 'v_parallel_1d', comm=comm, dtype=object)
                dist.fill_grid(g, F.arr)
                dist.fill_grid(ph, P.arr)
                vb = dist.make_basis(3, False, dist.uniform_breaks(-2, 1, nv - 3 if nv > 3 else 1), uniform=False) if False else None
                va = adv.VParallelAdvection.__new__(adv.VParallelAdvection)

                def step(f, dt_, c, rr):
                    # what the 1-D step depends on is the displacement c*dt (VParallelAdvection.step uses the product only)
                    rec.append(('step', F.where(f[0]), None if c is None else c * dt_, rr))
                va.step = step

                class PG:
                    def parallel_gradient(self, phi_r, i, der, *more, **kw):
                        gi = P.where(phi_r[0, 0])          # global (r, theta, z) of the slice's first entry
                        rec.append(('pg', gi[0], i, der.shape))
                        for a in range(der.shape[0]):
                            for b in range(der.shape[1]):
                                gz, gq = P.where(phi_r[a, b])[2], P.where(phi_r[a, b])[1]
                                der[a, b] = symx.uf('PG', K(r[gi[0]]), K(z[gz]), K(q[gq]))
                L = h4.getLayout('v_parallel')
                pgv = np.empty([L.shape[0], nz, nq], dtype=object)
                dt0 = Fr(0) if op == 'vpar_keep0' else Fr(1, 2)          # a step of length 0 still has to leave the gradient behind
                rec.append(('dt', dt0))
                va.gridStep(g, ph, PG(), pgv, K(dt0))
                if op in ('vpar_keep', 'vpar_keep0'):
                    # the kept gradient is used twice (Strang splitting does that), with different time steps
                    del rec[:]
                    rec.append(('dt', Fr(1, 2)))
                    va.gridStepKeepGradient(g, pgv, K(Fr(1, 2)))
                    rec.append(('dt', Fr(1, 3)))
                    va.gridStepKeepGradient(g, pgv, K(Fr(1, 3)))
            elif op.startswith('vpar_pg'):
                # the REAL ParallelGradient (finite-difference order = last character) driven by the real gridStep; only the 1-D
                # advection step is a recorder.  The speeds handed to it are compared with those of a one-process run.
                order = int(op[-1])
                g = m['grid'].Grid(eta, [None] * 4, h4, 'v_parallel', comm=comm, dtype=object)
                ph = m['grid'].Grid(eta[:3], [None] * 3, sw, 'v_parallel_1d', comm=comm, dtype=object)
                dist.fill_grid(g, F.arr)
                dist.fill_grid(ph, P.arr)
                va = adv.VParallelAdvection.__new__(adv.VParallelAdvection)

                def step(f, dt_, c, rr):
                    # what the 1-D step depends on is the displacement c*dt (VParallelAdvection.step uses the product only)
                    rec.append(('step', F.where(f[0]), None if c is None else c * dt_, rr))
                va.step = step
                pgr = adv.ParallelGradient(qb, eta, sw.getLayout('v_parallel_1d'), consts, order)
                L = h4.getLayout('v_parallel')
                pgv = np.empty([L.shape[0], nz, nq], dtype=object)
                va.gridStep(g, ph, pgr, pgv, K(Fr(1, 2)))
            elif op in ('pol', 'pol_keep'):
                g = m['grid'].Grid(eta, [None] * 4, h4, 'poloidal', comm=comm, dtype=object)
                ph = m['grid'].Grid(eta[:3], [None] * 3, sw, 'poloidal', comm=comm, dtype=object)
                dist.fill_grid(g, F.arr)
                dist.fill_grid(ph, P.arr)
                # the REAL constructor provides the per-plane potential splines (one object per z plane of the process); only the
                # 2-D interpolation and the 2-D step are recorders
                rbas = dist.make_basis(1, False, [Fr(1) + Fr(i, 2) for i in range(nr)], uniform=False)
                qbas = dist.make_basis(3, True, [TWO_PI * Fr(i, nq) for i in range(nq + 1)], uniform=False)
                pa = adv.PoloidalAdvection(eta, [qbas, rbas], consts, nulEdge=True)

                class Interp:
                    def compute_interpolant(self, data, spl):
                        spl.verif_tag = P.where(data[0, 0])[2]      # global z of the potential plane
                pa._interpolator = Interp()

                def step(f, dt_, phi, vv):
                    rec.append((F.where(f[0, 0]), getattr(phi, 'verif_tag', None), vv))
                pa.step = step
                pa.gridStep(g, ph, K(Fr(1, 2)))
                if op == 'pol_keep':
                    del rec[:]
                    pa.gridStep_SplinesUnchanged(g, K(Fr(1, 2)))
            elif op.startswith('init_'):
                lay = op[5:]
                g = m['grid'].Grid(eta, [None] * 4, h4, lay, comm=comm, dtype=object)
                getattr(ini, 'initialise_' + lay)(g, consts)
                L = h4.getLayout(lay)
                return ('init', L, np.array(g.getAllData(), dtype=object))
            return ('rec', h4, rec)
        if op.startswith('vpar_pg'):
            # serial reference first (same code, one process), then the distributed run
            saved = (nprocs_box[0],)
            nprocs_box[0] = (1, 1)
            try:
                st['serial'] = simmpi.World(1).run(rankfn)
            finally:
                nprocs_box[0] = saved[0]
        return simmpi.World(nranks).run(rankfn)

    for ctx, (kind, val) in symx.explore(body, timeout_ms=60000, index_cap=32):
        if kind != 'ok':
            if kind == 'abort' and not val.inconclusive:
                continue
            res['obligations'] += 1
            # the recorders assume the present calling convention between the grid-level loop and its per-slice kernel; when the
            # symbolic run cannot finish, the real float operator (distributed against one process) may still decide
            prob = float_replay(allm, item, [])
            if prob:
                res['violations'].append(('wiring:%s' % op, '%s (witness from the float run; symbolic run: %s %s)' % (prob, kind, str(val)[:100]),
                                          dict(kind='wiring', operator=op, nprocs=list(nprocs), iota=iota_mode, concrete=prob, canary=bool(canary))))
            else:
                res['inconclusive'].append('%s: %s %r' % (op, kind, val))
            continue
        eta, consts, dt = st['eta'], st['consts'], SReal(st['dt'])
        bad, where = [], []
        seen = set()
        if op == 'flux':
            # serial reference object: tables for the global (r, v) indices
            class FullLayout:
                inv_dims_order = (0, 2, 3, 1)
                starts = [0, 0, 0, 0]
                ends = [nr, nv, nq, nz]
                shape = (nr, nv, nq, nz)
            ref = adv.FluxSurfaceAdvection(eta, [st['qb'], st['zb']], FullLayout, dt, consts)
            for rk, (_, h4, rec) in enumerate(val):
                for (gidx, sh, ths, lc) in rec:
                    ir, iv = gidx[0], gidx[3]
                    seen.add((ir, iv))
                    for a, b in zip(sh, ref._shifts[ir, iv]):
                        bad.append(toreal(zt(K(a) if not isinstance(a, symx.Sym) else a)) != toreal(zt(K(b) if not isinstance(b, symx.Sym) else b)))
                        where.append(('flux shifts', rk, ir, iv))
                    for a, b in zip(ths, ref._thetaShifts[ir, iv]):
                        bad.append(toreal(zt(K(a))) != toreal(zt(K(b))))
                        where.append(('flux theta shifts', rk, ir, iv))
                    for a, b in zip(lc, ref._lagrangeCoeffs[ir, iv]):
                        bad.append(toreal(zt(K(a))) != toreal(zt(K(b))))
                        where.append(('flux lagrange weights', rk, ir, iv))
            if len(seen) != nr * nv:
                bad.append(z3.BoolVal(True))
                where.append(('flux: %d of %d (r,v) surfaces advanced' % (len(seen), nr * nv), -1, -1, -1))
        elif op in ('vpar', 'vpar_keep', 'vpar_keep0'):
            for rk, (_, h4, rec) in enumerate(val):
                L = h4.getLayout('v_parallel')
                cur_dt = Fr(1, 2)
                for e in rec:
                    if e[0] == 'dt':
                        cur_dt = e[1]
                        continue
                    if e[0] == 'pg':
                        _, gr, i, shp = e
                        if gr != i + int(L.starts[0]):
                            bad.append(z3.BoolVal(True))
                            where.append(('parallel gradient called with index %d for global radius %d' % (i, gr), rk, gr, -1))
                    else:
                        _, gidx, c, rr = e
                        ir, iq, iz = gidx[0], gidx[1], gidx[2]
                        seen.add((ir, iq, iz))
                        exp = symx.uf('PG', K(r[ir]), K(z[iz]), K(q[iq])) * K(cur_dt)
                        bad.append(toreal(zt(K(c) if c is not None else K(10 ** 9))) != toreal(zt(exp)))
                        where.append(('v-parallel displacement (speed x dt, dt = %s) at (r,theta,z)' % cur_dt, rk, (ir, iq, iz), -1))
                        bad.append(toreal(zt(K(rr))) != z3.RealVal(r[ir]))
                        where.append(('v-parallel radius', rk, (ir, iq, iz), -1))
            if len(seen) != nr * nq * nz:
                bad.append(z3.BoolVal(True))
                where.append(('vpar: %d of %d lines advanced' % (len(seen), nr * nq * nz), -1, -1, -1))
        elif op.startswith('vpar_pg'):
            ref = {}
            for (_, h4s, recs) in st['serial']:
                for (_, gidx, c, rr) in recs:
                    ref[tuple(gidx[:3])] = c
            for rk, (_, h4, rec) in enumerate(val):
                for (_, gidx, c, rr) in rec:
                    key = tuple(gidx[:3])
                    seen.add(key)
                    bad.append(toreal(zt(K(c) if c is not None else K(10 ** 9))) != toreal(zt(K(ref[key]))))
                    where.append(('v-parallel speed (real parallel gradient) differs from the one-process run at (r,theta,z)', rk, key, -1))
            if len(seen) != nr * nq * nz:
                bad.append(z3.BoolVal(True))
                where.append(('vpar_pg: %d of %d lines advanced' % (len(seen), nr * nq * nz), -1, -1, -1))
        elif op in ('pol', 'pol_keep'):
            for rk, (_, h4, rec) in enumerate(val):
                for (gidx, ptag, vv) in rec:
                    iz, iv = gidx[2], gidx[3]
                    seen.add((iz, iv))
                    if ptag != iz:
                        bad.append(z3.BoolVal(True))
                        where.append(('poloidal step on plane z=%d uses the potential of plane z=%s' % (iz, ptag), rk, iz, iv))
                    bad.append(toreal(zt(K(vv))) != z3.RealVal(v[iv]))
                    where.append(('poloidal velocity', rk, iz, iv))
            if len(seen) != nz * nv:
                bad.append(z3.BoolVal(True))
                where.append(('pol: %d of %d planes advanced' % (len(seen), nz * nv), -1, -1, -1))
        else:
            fe = m['init_funcs'].init_f
            for rk, (_, L, data) in enumerate(val):
                for li in itertools.product(*[range(n) for n in data.shape]):
                    g = [None] * 4
                    for a in range(4):
                        g[L.dims_order[a]] = li[a] + int(L.starts[a])
                    exp = fe(K(r[g[0]]), K(q[g[1]]), K(z[g[2]]), K(v[g[3]]), consts.m, consts.n, consts.eps, consts.CN0, consts.kN0,
                             consts.deltaRN0, consts.rp, consts.CTi, consts.kTi, consts.deltaRTi, consts.deltaR, consts.R0)
                    bad.append(toreal(zt(data[li])) != toreal(zt(exp)))
                    where.append(('initial value', rk, tuple(g), -1))
        res['obligations'] += 1
        r_ = ctx.check(z3.Or(bad)) if bad else 'unsat'
        if r_ == 'unsat':
            res['discharged'] += 1
            res['nontrivial'].append('%s|%s|%s' % (op, nprocs, iota_mode))
            if len(res['samples']) < 1:
                res['samples'].append(dict(operator=op, nprocs=list(nprocs), iota=iota_mode, facts=len(bad)))
        elif r_ == 'sat':
            mdl = ctx.model()
            hits = [w for w, b in zip(where, bad) if z3.is_true(mdl.eval(b, model_completion=True))]
            prob = float_replay(allm, item, hits)
            rep = dict(kind='wiring', operator=op, nprocs=list(nprocs), iota=iota_mode, facts=[str(h) for h in hits[:4]], concrete=prob, canary=bool(canary))
            key = 'wiring:%s' % op
            if prob:
                res['violations'].append((key, '%s; %s' % (hits[0][0], prob), rep))
            else:
                res['inconclusive'].append('wiring model does not reproduce on the float code: %r' % rep)
        else:
            res['inconclusive'].append('unknown wiring query %r' % (item[:3],))
    symx.DIV_ZERO = 'raise'
    numenv.disable()
    if canary:
        undo_canary(None)
    res['stats'] = symx.GLOBAL.as_dict()
    symx.GLOBAL.__init__()
    res['wall'] = round(time.time() - t0, 2)
    res['canary'] = canary[0] if canary else None
    return res


def float_replay(allm, item, hits):
    """concrete confirmation on the real float code: distributed run vs. serial run of the same real operator"""
    op, nprocs, iota_mode, _ = item[:4]
    SHAPE = item[4] if len(item) > 4 else globals()['SHAPE']
    m = allm
    adv = m['adv']
    numenv.disable()
    symx.DIV_ZERO = 'raise'
    try:
        nr, nq, nz, nv = SHAPE
        r, q, z, v = [np.array([float(x) for x in a]) for a in coords(SHAPE)]
        eta = [r, q, z, v]
        twists = [0.0] * nr if iota_mode == 'zero' else [[0.75, 5 / 12, 8 / 15, 0.0][i % 4] for i in range(nr)]

        class FC:
            R0 = float(R0)
            CN0, kN0, deltaRN0, rp, CTi, kTi, deltaRTi, deltaR, B0, eps, m, n = 0.1, 0.055, 2.9, 1.5, 1.0, 0.27, 1.45, 8.0, 1.0, 1e-3, 3, 1

            @staticmethod
            def iota(rr):
                mp = {round(float(a), 12): t * float(R0) / float(a) for a, t in zip(r, twists)}
                return np.array([mp[round(float(x), 12)] for x in np.atleast_1d(rr)])
        kq = m['spl'].make_knots(np.linspace(0, float(TWO_PI), nq + 1), 3, True)
        qb = m['spl'].BSplines(kq, 3, True, True)
        kz = m['spl'].make_knots(np.linspace(0, 0.5 * nz, nz + 1), 3, True)
        zb = m['spl'].BSplines(kz, 3, True, True)
        eta = [r, np.array(qb.greville), np.array(zb.greville), v]
        rng = np.random.RandomState(2)
        Fd = rng.rand(*SHAPE) + 1.0
        Pd = rng.rand(*SHAPE[:3])

        slice_errs = []

        def run(np_):
            def rankfn(comm):
                with warnings.catch_warnings():
                    warnings.simplefilter('ignore')
                    h4 = m['layout'].getLayoutHandler(comm, dict(LAY4), list(np_), eta)
                    sw = m['layout'].LayoutSwapper(comm, [dict(d) for d in LAY3], [list(np_), np_[0], np_[1]], eta[:3], 'v_parallel_1d')
                if op == 'flux':
                    g = m['grid'].Grid(eta, [None, qb, zb, None], h4, 'flux_surface', comm=comm)
                    dist.fill_grid(g, Fd)
                    fa = adv.FluxSurfaceAdvection(eta, [qb, zb], h4.getLayout('flux_surface'), 0.1, FC)
                    before = g.getAllData().copy()
                    fa.gridStep(g)
                    # per-slice reference: the (C10-verified) step with the slice's own radial and velocity index
                    for i in range(before.shape[0]):
                        for j in range(before.shape[1]):
                            ref = before[i, j].copy()
                            fa.step(ref, j, i)
                            slice_errs.append(float(np.max(np.abs(ref - g.getAllData()[i, j]))))
                    return h4.getLayout('flux_surface'), g.getAllData().copy()
                if op in ('vpar', 'vpar_keep', 'vpar_keep0'):
                    g = m['grid'].Grid(eta, [None] * 4, h4, 'v_parallel', comm=comm)
                    ph = m['grid'].Grid(eta[:3], [None] * 3, sw, 'v_parallel_1d', comm=comm)
                    dist.fill_grid(g, Fd)
                    dist.fill_grid(ph, Pd)
                    va = adv.VParallelAdvection.__new__(adv.VParallelAdvection)
                    va.step = lambda f, dt_, c, rr: f.__setitem__(slice(None), f * 0 + c * dt_ + 1000 * rr)

                    class PG:
                        def parallel_gradient(self, phi_r, i, der, *more, **kw):
                            der[:] = phi_r * 7.0 + i * 0
                    L = h4.getLayout('v_parallel')
                    pgv = np.empty([L.shape[0], nz, nq])
                    va.gridStep(g, ph, PG(), pgv, 0.0 if op == 'vpar_keep0' else 0.5)
                    if op in ('vpar_keep', 'vpar_keep0'):
                        dist.fill_grid(g, Fd)
                        va.gridStepKeepGradient(g, pgv, 0.5)
                        dist.fill_grid(g, Fd)
                        va.gridStepKeepGradient(g, pgv, 0.25)
                    return L, g.getAllData().copy()
                if op.startswith('vpar_pg'):
                    g = m['grid'].Grid(eta, [None] * 4, h4, 'v_parallel', comm=comm)
                    ph = m['grid'].Grid(eta[:3], [None] * 3, sw, 'v_parallel_1d', comm=comm)
                    dist.fill_grid(g, Fd)
                    dist.fill_grid(ph, Pd)
                    va = adv.VParallelAdvection.__new__(adv.VParallelAdvection)
                    va.step = lambda f, dt_, c, rr: f.__setitem__(slice(None), f * 0 + c * dt_)
                    pgr = adv.ParallelGradient(qb, eta, sw.getLayout('v_parallel_1d'), FC, int(op[-1]))
                    L = h4.getLayout('v_parallel')
                    pgv = np.empty([L.shape[0], nz, nq])
                    va.gridStep(g, ph, pgr, pgv, 0.5)
                    return L, g.getAllData().copy()
                if op in ('pol', 'pol_keep'):
                    g = m['grid'].Grid(eta, [None] * 4, h4, 'poloidal', comm=comm)
                    ph = m['grid'].Grid(eta[:3], [None] * 3, sw, 'poloidal', comm=comm)
                    dist.fill_grid(g, Fd)
                    dist.fill_grid(ph, Pd)
                    knr = m['spl'].make_knots(np.array([float(x) for x in r]), 1, False)
                    rbas = m['spl'].BSplines(knr, 1, False, False)
                    qbas = m['spl'].BSplines(kq, 3, True, False)
                    pa = adv.PoloidalAdvection(eta, [qbas, rbas], FC, nulEdge=True)          # real constructor: real list of plane splines

                    class Interp:
                        def compute_interpolant(self, data, spl):
                            spl.verif_s = float(np.sum(data))
                    pa._interpolator = Interp()
                    pa.step = lambda f, dt_, phi, vv: f.__setitem__((slice(None), slice(None)), f * 0 + phi.verif_s + 1000 * vv)
                    pa.gridStep(g, ph, 0.5)
                    if op == 'pol_keep':
                        pa.gridStep_SplinesUnchanged(g, 0.5)
                    return h4.getLayout('poloidal'), g.getAllData().copy()
                lay = op[5:]
                g = m['grid'].Grid(eta, [None] * 4, h4, lay, comm=comm)
                getattr(m['ini'], 'initialise_' + lay)(g, FC)
                return h4.getLayout(lay), g.getAllData().copy()
            outs = simmpi.World(int(np.prod(np_))).run(rankfn)
            glob, _ = dist.assemble(outs, SHAPE, 4)
            return glob.astype(float)
        dist_res = run(nprocs)
        serial = run((1, 1))
        err = float(np.max(np.abs(dist_res - serial)))
        abs_err = 0.0
        if op in ('pol', 'pol_keep'):
            # absolute reference for the recording kernel of this replay: every (z, v) plane holds sum(phi[:, :, z]) + 1000 v
            want = np.empty(SHAPE)
            for iz in range(nz):
                for iv in range(nv):
                    want[:, :, iz, iv] = float(np.sum(Pd[:, :, iz])) + 1000.0 * v[iv]
            abs_err = float(np.max(np.abs(serial - want)))
        if op in ('vpar', 'vpar_keep', 'vpar_keep0'):
            # absolute reference for the recording kernels of this replay: every v line holds 7 phi(r,theta,z) dt + 1000 r
            last_dt = 0.25 if op in ('vpar_keep', 'vpar_keep0') else 0.5
            want = np.empty(SHAPE)
            for ir in range(nr):
                want[ir] = (7.0 * Pd[ir] * last_dt + 1000.0 * r[ir])[:, :, None]
            abs_err = float(np.max(np.abs(serial - want)))
    except Exception as e:
        return 'exception %s: %s' % (type(e).__name__, e)
    finally:
        symx.DIV_ZERO = 'poison'
        numenv.enable()
    if err > 1e-9:
        return 'operator %s on process grid %s differs from the serial run by %.3g' % (op, list(nprocs), err)
    if abs_err > 1e-6 and op in ('vpar', 'vpar_keep', 'vpar_keep0'):
        return 'operator %s (one process): the 1-D steps do not receive gradient x dt and radius of their own (r, theta, z) line%s (deviation %.3g)' % (
            op, ', second use of the kept gradient with another time step' if op != 'vpar' else '', abs_err)
    if abs_err > 1e-6:
        return 'operator %s (one process): the per-plane kernel does not receive the potential plane and velocity of its own (z, v) slice (deviation %.3g)' % (op, abs_err)
    if slice_errs and max(slice_errs) > 1e-9:
        return 'operator flux: grid step differs by %.3g from stepping each (r,v) surface with its own radial/velocity index (serial run included)' % max(slice_errs)
    return None


CANARIES = [
    ('poloidal step pairs plane j with potential plane j-1', 'adv', [(
        "        for i, v in grid.getCoords(0):\n            for j, _ in grid.getCoords(1):  # z\n                self.step(grid.get2DSlice(i, j), dt, self._phiSplines[j], v)\n\n    def gridStep_SplinesUnchanged",
        "        for i, v in grid.getCoords(0):\n            for j, _ in grid.getCoords(1):  # z\n                self.step(grid.get2DSlice(i, j), dt, self._phiSplines[j-1 if j == 2 else j], v)\n\n    def gridStep_SplinesUnchanged")], 'pol'),
    ('initialiser uses the local radius index for v', 'ini', [(
        "def initialise_poloidal(grid, constants):\n    \"\"\"\n    TODO\n    \"\"\"\n    for i, v in grid.getCoords(0):",
        "def initialise_poloidal(grid, constants):\n    \"\"\"\n    TODO\n    \"\"\"\n    for i, v in enumerate(grid.eta_grid[3][:grid.getLayout(grid.currentLayout).shape[0]]):")], 'init_poloidal'),
]


def main():
    run = H.Run(PID, 'proof')
    m = dist.mods()
    adv = H.repo_import('pygyro.advection.advection')
    ini = H.repo_import('pygyro.initialisation.initialiser')
    if run.args.replay:
        print(json.dumps(json.load(open(run.args.replay))['replay'], indent=1))
        sys.exit(0)
    run.functions = H.src_info(adv.FluxSurfaceAdvection.gridStep, adv.FluxSurfaceAdvection._getLagrangePts, adv.VParallelAdvection.gridStep,
                               adv.VParallelAdvection.gridStepKeepGradient, adv.PoloidalAdvection.gridStep, adv.PoloidalAdvection.gridStep_SplinesUnchanged,
                               ini.initialise_flux_surface, ini.initialise_poloidal, ini.initialise_v_parallel)
    quick = run.tier == 'quick'
    grids = [(1, 1), (2, 1), (1, 2), (2, 2)] if quick else [(a, b) for a in (1, 2, 3) for b in (1, 2, 3)]
    items = []
    for grid in grids:
        for op in ('flux', 'vpar', 'vpar_keep', 'vpar_keep0', 'pol', 'pol_keep', 'init_flux_surface', 'init_poloidal', 'init_v_parallel'):
            for iota in (('zero', 'radial') if op == 'flux' else ('radial',)):
                items.append((op, grid, iota, None))
    # radial blocks of different sizes with more than one radius on the later rank (5 radii over 2 processes: 3 + 2)
    items.append(('flux', (2, 1), 'radial', None, (5, 4, 7, 2)))
    items.append(('vpar', (2, 1), 'radial', None, (5, 4, 7, 2)))
    for grid in ([(1, 2), (2, 2)] if quick else [(1, 2), (2, 2), (1, 3), (2, 3)]):
        for order in ((3, 6) if quick else (2, 3, 4, 5, 6)):
            if order + 1 < SHAPE[2]:
                items.append(('vpar_pg%d' % order, grid, 'radial', None))
    if not quick:
        # a second shape whose extents are not divisible by 2 or 3 in r and differ in every direction
        for grid in [(2, 2), (3, 2), (2, 3), (3, 3), (4, 1)]:
            for op in ('flux', 'vpar', 'vpar_keep', 'pol', 'pol_keep', 'init_flux_surface', 'init_poloidal', 'init_v_parallel'):
                items.append((op, grid, 'radial', None, (5, 4, 8, 5)))
    for cn in CANARIES:
        items.append((cn[3], (2, 2), 'radial', cn[:3]))
    caught = {}
    for r in H.pmap(work, items, run.args.jobs):
        if r.get('canary'):
            run.add_stats(r.get('stats', {}))
            caught[r['canary']] = bool(r['violations'])
            continue
        run.merge(r)
    for cn in CANARIES:
        hit = caught.get(cn[0], False)
        run.canaries.append(dict(name=cn[0], detected=hit))
        if not hit:
            run.canary_miss(cn[0], caught)
    numenv.enable(extra_modules=[(adv, None)])
    run.stubs = sorted(set(numenv.STUBS)) + ['per-slice advection kernels (step methods, parallel_gradient, 2-D interpolation): recorders / uninterpreted functions of their numerical parameters',
                                             'exp/tanh/sqrt/cos uninterpreted in the initialisers']
    numenv.disable()
    run.bounds = dict(extents=list(SHAPE), grids=[list(g) for g in grids], operators='flux, v-parallel (+keep gradient), poloidal (+splines unchanged), three initialisers',
                      dt='flux tables: all dt in (0, 1/8) (one stencil position)')
    run.outside = ['equality of the floating-point results (reduction order, rounding)', 'the quasi-neutrality solve (getModes/solveEquation/findPotential): FFT/spsolve (see C15 not applicable)',
                   'density integration: C16', 'the numerical kernels themselves: C07-C13', 'the complete Strang step as a composition: follows from these wiring facts with C01/C03/C04']
    run.assumptions = ['kernels are functions of (their numerical parameters, their input slice)']
    run.finish(
        explanation='Real grid-level loops on every rank; slices identified by the global index carried by their symbolic entries; z3 decides that '
                    'table rows / speeds / radii / velocities / potential planes / initial values handed to each slice are those of its global '
                    'coordinates, and that every global slice is processed exactly once.',
        rule='case = (operator, process grid, rotational transform profile)')


if __name__ == '__main__':
    main()
