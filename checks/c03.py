"""C03 -- redistribution across differently distributed layout groups preserves data.

The real LayoutSwapper (constructor with Create_cart/Sub and communicator matching, _compatibleLayout, getAxes,
transpose, gather = Allgather of padded blocks + per-rank unpack, scatter = local slice, multi-step redirects) runs
on bit-vector extents over the symbolic-shape numpy model and the MPI simulator, on every rank.  Every single step is
verified and then re-abstracted to its post-condition (assume/guarantee), which is exactly the pre-condition of
the next step, so chains and round trips of any length are covered by the single-step results.
"""
import itertools
import zlib
import json
import sys
import time
import warnings

import z3

from lib import symx, symnp, simmpi
from lib import harness as H
from lib import layoutsym as LS
from lib.symnp import zi, VAL

PID = 'C03'

DRIVER3 = dict(nd=3, groups=[{'v_parallel_2d': [0, 2, 1], 'mode_solve': [1, 2, 0]}, {'v_parallel_1d': [0, 2, 1]}, {'poloidal': [2, 1, 0]}],
               procs=lambda p0, p1: [[p0, p1], p0, p1], start='mode_solve')
DRIVER4 = dict(nd=4, groups=[{'v_parallel_2d': [0, 2, 1, 3], 'mode_solve': [1, 2, 0, 3]}, {'v_parallel_1d': [0, 2, 1, 3]}, {'poloidal': [2, 1, 0, 3]}],
               procs=lambda p0, p1: [[p0, p1], p0, p1], start='mode_solve')
UPSTREAM4 = dict(nd=4, groups=[{'flux_surface2': [0, 3, 1, 2], 'v_parallel': [0, 2, 1, 3], 'poloidal': [3, 2, 1, 0]},
                                {'flux_surface1': [0, 3, 1, 2], 'z_surface': [2, 3, 1, 0], 'vr_contig1': [2, 1, 3, 0]}],
                 procs=lambda p0, p1: [[p0, p1], p0], start='flux_surface2')
TWO_GROUPS = dict(nd=3, groups=[{'A': [0, 1, 2], 'B': [0, 2, 1]}, {'C': [0, 2, 1]}],
                  procs=lambda p0, p1: [[p0, p1], p0], start='A')


# the less distributed group listed FIRST (the constructor sizes its buffer in a different branch for this order)
REV3 = dict(nd=3, groups=[{'G': [0, 1, 2]}, {'S': [0, 1, 2]}], procs=lambda p0, p1: [p0, [p0, p1]], start='S')
REV_TWO = dict(nd=3, groups=[{'C': [0, 2, 1]}, {'A': [0, 1, 2], 'B': [0, 2, 1]}], procs=lambda p0, p1: [p0, [p0, p1]], start='A')
# a grouping whose layouts cannot be joined (the 1-D poloidal handler sits on the wrong grid direction): the constructor must
# refuse it; if it is accepted, the property applies to it like to any accepted grouping
UNCONN3 = dict(nd=3, groups=[{'v_parallel_2d': [0, 2, 1], 'mode_solve': [1, 2, 0]}, {'poloidal': [2, 1, 0]}],
               procs=lambda p0, p1: [[p0, p1], p0], start='mode_solve')
# a route of three steps across handlers (A-C-B inside the 2-D handler, then the gather to D)
THREE_STEP = dict(nd=3, groups=[{'A': [0, 1, 2], 'C': [0, 2, 1], 'B': [1, 2, 0]}, {'D': [1, 0, 2]}],
                  procs=lambda p0, p1: [[p0, p1], p0], start='A')
# gather first, then a transpose inside the less distributed handler (the destination block is larger than the source block)
GATHER3 = dict(nd=3, groups=[{'A': [0, 1, 2]}, {'G': [0, 1, 2], 'H': [2, 1, 0]}], procs=lambda p0, p1: [[p0, p1], p0], start='A')
FAMILIES = dict(gather3=GATHER3, three3=THREE_STEP, driver3=DRIVER3, driver4=DRIVER4, two=TWO_GROUPS, upstream4=UPSTREAM4, rev3=REV3, rev_two=REV_TWO, unconn3=UNCONN3)


def tag(cfg):
    return '%s grid%s %s->%s buf=%d N=%d' % (cfg['family'], tuple(cfg['nprocs']), cfg['src'], cfg['dst'], cfg['buf'], cfg['N'])


def family(cfg):
    return FAMILIES[cfg['family']]


def enum_paths(cfg):
    return run_config(cfg, mode='enum')


def run_item(item):
    return run_config(item[0], mode='path', decisions=item[1])


def run_config(cfg, mode='all', decisions=None):
    res = H.worker_result()
    real, lay = LS.modules()
    fam = family(cfg)
    nd, groups = fam['nd'], fam['groups']
    nprocs = cfg['nprocs']
    gprocs = fam['procs'](*nprocs)
    src, dst, use_buf, N = cfg['src'], cfg['dst'], cfg['buf'], cfg['N']
    canary = cfg.get('canary')
    real_mod = None
    if canary:
        real_mod = H.mutant_module(real, canary)
        lay = H.mutant_module(lay, canary)
        lay.np = symnp.NPShim()
        lay.len = symnp.symlen
    LS.install_step_contracts(lay)
    LS.install_swapper_contracts(lay)
    symx.set_bv(LS.bv_width(max(nprocs), N, nd))
    sets = []
    for g, p in zip(groups, gprocs):
        sets.append((g, [p] if isinstance(p, int) else list(p)))
    mins = LS.min_extents(nd, sets)
    size = nprocs[0] * nprocs[1]
    st = {}
    t0 = time.time()

    def body(ctx):
        ns = LS.extent_vars(ctx, nd, N, mins)
        eta = [symnp.SymLen(symx.SInt(nv)) for nv in ns]
        G = z3.Function('G', *([symx.isort()] * nd), VAL)
        junk = z3.Function('junk', symx.isort(), symx.isort(), symx.isort(), VAL)
        st['ns'] = ns
        st['ses'] = lay._verif_session = LS.Session(G, junk)

        def rankfn(comm):
            r = comm.Get_rank()
            with warnings.catch_warnings():
                warnings.simplefilter('ignore')
                try:
                    sw = lay.LayoutSwapper(comm, [dict(g) for g in groups], [p if isinstance(p, int) else list(p) for p in gprocs], eta, fam['start'])
                except AssertionError as e:
                    # the constructor's own consistency assertions: the grouping is not accepted (outside the property)
                    raise RuntimeError('grouping refused by an assertion of the constructor: could not be connected / %s' % (e,))
                ls, ld = sw.getLayout(src), sw.getLayout(dst)
                jf = lambda w: (lambda pos: junk(symx.ival(r), symx.ival(w), pos))
                s = symnp.new_array('src%d' % r, sw.bufferSize, LS.field_init(ls, G, jf(0)))
                d = symnp.new_array('dst%d' % r, sw.bufferSize, jf(1))
                b = symnp.new_array('buf%d' % r, sw.bufferSize, jf(2)) if use_buf else None
                sw.transpose(s, d, src, dst, b)
            return sw, s, d, b
        out = simmpi.World(size).run(rankfn)
        return G, out

    def model_shape(ctx):
        m = ctx.model()
        return [m.eval(v, model_completion=True).as_signed_long() for v in st['ns']]

    def confirm(shape, what):
        probs = LS.concrete_swapper_transpose(shape, nprocs, groups, gprocs, fam['start'], src, dst, use_buf, module=real_mod)
        rep = dict(kind='swapper', family=cfg['family'], shape=shape, nprocs=nprocs, src=src, dst=dst, buf=use_buf,
                   symbolic=what, concrete=probs, canary=bool(canary))
        if probs:
            res['violations'].append(('swapper:%s' % ('equal_extents' if nprocs[0] == nprocs[1] else 'general'),
                                      '%s; shape %s grid %s %s->%s buf=%s: %s' % (what, shape, nprocs, src, dst, use_buf, probs[0]), rep))
        else:
            res['inconclusive'].append('model does not reproduce on real numpy: %r' % rep)

    if mode == 'enum':
        paths = []
        for ctx, (kind, val) in symx.explore(body, timeout_ms=cfg['tmo'], index_cap=64):
            paths.append([dict(d) for d in ctx.decisions])
        res.update(paths=paths, cfg=cfg, configs=0, stats=symx.GLOBAL.as_dict(), wall=round(time.time() - t0, 2))
        symx.GLOBAL.__init__()
        return res
    gen = [symx.run_path(body, decisions, timeout_ms=cfg['tmo'], index_cap=64)] if mode == 'path' else symx.explore(body, timeout_ms=cfg['tmo'], index_cap=64)
    for ctx, (kind, val) in gen:
        if kind == 'abort':
            if val.inconclusive:
                res['inconclusive'].append('abort: %s in %s' % (val.why, tag(cfg)))
            continue
        if kind == 'exc':
            res['obligations'] += 1
            if isinstance(val, NotImplementedError):
                res['inconclusive'].append('model limitation %r in %s' % (val, tag(cfg)))
                continue
            if isinstance(val, RuntimeError) and 'could not be connected' in str(val):
                # the constructor does not accept this grouping: outside the property ("groupings the constructor accepts")
                res['obligations'] -= 1
                res.setdefault('rejected', []).append(tag(cfg))
                continue
            r = ctx.check()
            if r == 'sat':
                confirm(model_shape(ctx), 'exception %s: %s' % (type(val).__name__, str(val)[:160]))
            else:
                res['inconclusive'].append('exception path without model (%s) %r' % (r, val))
            continue
        G, out = val
        for ob, r in st['ses'].discharge(ctx, nd):
            res['obligations'] += 1
            if r == 'unsat':
                res['discharged'] += 1
            elif r == 'sat':
                confirm(model_shape(ctx), 'single step %d (%s): %s' % (ob['step'], ob['arr'].buf.name,
                        'destination differs from global field' if ob['kind'] == 'dest' else 'source modified although buffer given'))
            else:
                res['inconclusive'].append('unknown (step query) %s' % tag(cfg))
        for rk, (sw, s, d, b) in enumerate(out):
            ld, ls = sw.getLayout(dst), sw.getLayout(src)
            li = [symx.mkint('i%d' % a) for a in range(nd)]
            cons = [z3.And(li[a] >= 0, li[a] < zi(ld.shape[a])) for a in range(nd)]
            got = symnp.read_buf(d.buf, d.buf.version(), LS.flat_pos(ld, li))
            res['obligations'] += 1
            r = ctx.check(*cons, got != LS.expected_at(ld, G, li))
            if r == 'unsat':
                res['discharged'] += 1
            elif r == 'sat':
                confirm(model_shape(ctx), 'rank %d destination differs from global field (replicas must all hold it)' % rk)
            else:
                res['inconclusive'].append('unknown (dest query) rank %d %s' % (rk, tag(cfg)))
            if use_buf:
                pos = symx.mkint('pos')
                res['obligations'] += 1
                now = symnp.read_buf(s.buf, s.buf.version(), pos)
                r = ctx.check(pos >= 0, pos < zi(ls.size), now != s.buf.epochs[0][1](pos))
                if r == 'unsat':
                    res['discharged'] += 1
                elif r == 'sat':
                    confirm(model_shape(ctx), 'rank %d source modified although buffer given' % rk)
                else:
                    res['inconclusive'].append('unknown (source-intact query) rank %d %s' % (rk, tag(cfg)))
            res['obligations'] += 1
            if sw._current_manager is sw._managers[sw._handlers[dst]]:
                res['discharged'] += 1
            else:
                confirm(model_shape(ctx) if ctx.check() == 'sat' else [N] * nd, 'current manager not that of the destination layout')
        if ctx.check() != 'sat':
            res['inconclusive'].append('vacuous path in %s' % tag(cfg))
        else:
            res['nontrivial'].append('%s|%d|%s' % (tag(cfg), len(ctx.decisions), ''.join('T' if d['choice'] else 'F' for d in ctx.decisions[-16:])))
            if len(res['samples']) < 1:
                res['samples'].append(dict(config=tag(cfg), example_shape=model_shape(ctx), path_decisions=len(ctx.decisions)))
    res['stats'] = symx.GLOBAL.as_dict()
    symx.GLOBAL.__init__()
    res['cfg'] = tag(cfg)
    res['wall'] = round(time.time() - t0, 2)
    res['canary'] = cfg.get('canary_name')
    return res


CANARIES = [
    ('gather unpacks blocks with the wrong start', [(
        "                slices[idx_d] = slice(layout_source.mpi_starts(idx_s)[i],\n                                      layout_source.mpi_starts(idx_s)[i]+layout_source.mpi_lengths(idx_s)[i])\n\n                block = np.split(b, [blockSize])[0].reshape(blockShape)\n\n                # Copy the block into the correct part of the memory\n                destView[tuple(slices)] = np.transpose(block, transposition)\n\n            # The data now resides",
        "                slices[idx_d] = slice(layout_source.mpi_starts(idx_s)[i]+(1 if i == 1 and layout_source.mpi_lengths(idx_s)[1] > 1 else 0),\n                                      layout_source.mpi_starts(idx_s)[i]+layout_source.mpi_lengths(idx_s)[i])\n\n                block = np.split(b, [blockSize])[0].reshape(blockShape)\n\n                # Copy the block into the correct part of the memory\n                destView[tuple(slices)] = np.transpose(block, transposition)\n\n            # The data now resides")]),
    ('scatter uses the rank of the wrong communicator', [(
        "            comm = self._managers[self._handlers[layout_dest.name]\n                                  ].communicators[idx_d]\n            rank = comm.Get_rank()\n\n            # Find the start and end of the data\n            start = layout_dest.mpi_starts(idx_d)[rank]\n            length = layout_dest.mpi_lengths(idx_d)[rank]\n\n            sourceSlice = [slice(n) for n in layout_source.shape]\n            sourceSlice[idx_s] = slice(start, start+length)\n\n            transposition = [layout_source.dims_order.index(\n                i) for i in layout_dest.dims_order]\n\n            # Copy the relevant information\n            destView[:] = np.transpose(\n                sourceView[tuple(sourceSlice)], transposition)\n\n        else:\n            # Find the axis which will be distributed\n            idx_d, idx_s = self.getAxes(layout_dest, layout_source)\n\n            # Get the information about the communicators\n            comm = self._managers[self._handlers[layout_source.name]\n                                  ].communicators[idx_s]\n            mpi_size = comm.Get_size()\n\n            # Find the size of the distributed block\n            blockShape = list(layout_source.shape)\n            blockShape[idx_s] = layout_source.max_block_shape[idx_s]\n            blockSize = np.prod(blockShape)\n\n            # Get a view on the block\n            sourceView = np.split(source, [blockSize])[0]\n\n            # Gather the data from the blocks on the processes\n            destView = np.split(dest, [blockSize*mpi_size])[0]",
        "            comm = self._managers[self._handlers[layout_dest.name]\n                                  ].communicators[0]\n            rank = comm.Get_rank()\n\n            # Find the start and end of the data\n            start = layout_dest.mpi_starts(idx_d)[rank]\n            length = layout_dest.mpi_lengths(idx_d)[rank]\n\n            sourceSlice = [slice(n) for n in layout_source.shape]\n            sourceSlice[idx_s] = slice(start, start+length)\n\n            transposition = [layout_source.dims_order.index(\n                i) for i in layout_dest.dims_order]\n\n            # Copy the relevant information\n            destView[:] = np.transpose(\n                sourceView[tuple(sourceSlice)], transposition)\n\n        else:\n            # Find the axis which will be distributed\n            idx_d, idx_s = self.getAxes(layout_dest, layout_source)\n\n            # Get the information about the communicators\n            comm = self._managers[self._handlers[layout_source.name]\n                                  ].communicators[idx_s]\n            mpi_size = comm.Get_size()\n\n            # Find the size of the distributed block\n            blockShape = list(layout_source.shape)\n            blockShape[idx_s] = layout_source.max_block_shape[idx_s]\n            blockSize = np.prod(blockShape)\n\n            # Get a view on the block\n            sourceView = np.split(source, [blockSize])[0]\n\n            # Gather the data from the blocks on the processes\n            destView = np.split(dest, [blockSize*mpi_size])[0]")]),
]


def configs(tier):
    out = []
    tmo = 120000 if tier == 'quick' else 600000

    def add(fam, nprocs, src, dst, buf, N):
        out.append(dict(family=fam, nprocs=list(nprocs), src=src, dst=dst, buf=buf, N=N, tmo=tmo))
    names3 = ['v_parallel_2d', 'mode_solve', 'v_parallel_1d', 'poloidal']
    if tier == 'quick':
        for grid in [(1, 2), (2, 2)]:
            for a, b in itertools.permutations(names3, 2):
                add('driver3', grid, a, b, (a, b) in [('mode_solve', 'v_parallel_1d'), ('v_parallel_1d', 'poloidal'), ('poloidal', 'mode_solve')], 3)
        add('driver3', (2, 1), 'v_parallel_2d', 'poloidal', False, 3)
        # same number of distributed directions on a grid with an extent of 1, buffer given, orders differing by a 3-cycle
        add('driver3', (1, 2), 'poloidal', 'v_parallel_2d', True, 3)
        add('driver3', (1, 2), 'v_parallel_1d', 'poloidal', True, 3)
        # the grouping of upstream's own LayoutSwapper test (4-D, 1-D group on the first direction)
        for a, b, buf in (('z_surface', 'v_parallel', False), ('v_parallel', 'z_surface', True), ('flux_surface1', 'flux_surface2', False), ('poloidal', 'vr_contig1', False)):
            add('upstream4', (2, 2), a, b, buf, 2)
        add('driver3', (2, 1), 'poloidal', 'v_parallel_1d', True, 3)
        # less distributed group listed first
        add('rev3', (2, 2), 'S', 'G', False, 3)
        add('rev3', (2, 2), 'G', 'S', True, 3)
        add('rev_two', (2, 2), 'B', 'C', False, 3)
        add('three3', (2, 2), 'A', 'D', True, 3)
        add('three3', (2, 2), 'D', 'A', True, 3)
        add('three3', (2, 2), 'A', 'D', False, 3)
        add('unconn3', (2, 3), 'mode_solve', 'poloidal', False, 3)
        add('unconn3', (2, 3), 'poloidal', 'v_parallel_2d', True, 3)
        # two steps without a spare buffer ending in a transpose inside the 1-D handler (block grows on the way)
        add('gather3', (2, 2), 'A', 'H', False, 3)
        add('gather3', (2, 2), 'H', 'A', False, 3)
        add('gather3', (2, 3), 'A', 'H', True, 3)
        add('upstream4', (2, 2), 'flux_surface2', 'z_surface', False, 2)
    else:
        for grid in [(1, 2), (2, 1), (2, 2), (1, 3), (3, 1), (2, 3), (3, 2), (3, 3)]:
            for a, b in itertools.permutations(names3, 2):
                for buf in (False, True):
                    add('driver3', grid, a, b, buf, 4 if max(grid) < 3 else 3)
        for grid in [(1, 2), (2, 1), (2, 2)]:
            for a, b in itertools.permutations(names3, 2):
                add('driver4', grid, a, b, (zlib.crc32((a + '>' + b).encode()) % 2 == 0), 3)
        up = ['flux_surface2', 'v_parallel', 'poloidal', 'flux_surface1', 'z_surface', 'vr_contig1']
        for grid in [(2, 2), (2, 1), (1, 2)]:
            for a, b in itertools.permutations(up, 2):
                if grid == (2, 2):
                    add('upstream4', grid, a, b, False, 2)
                    add('upstream4', grid, a, b, True, 2)
                else:
                    add('upstream4', grid, a, b, (zlib.crc32((a + '>' + b).encode()) % 3 == 0), 3)
        for grid in [(2, 2), (2, 3)]:
            for a, b in itertools.permutations(['A', 'B', 'C'], 2):
                for buf in (False, True):
                    add('two', grid, a, b, buf, 3)
                    add('rev_two', grid, a, b, buf, 3)
        for grid in [(2, 2), (2, 3)]:
            for a, b in itertools.permutations(['A', 'B', 'C', 'D'], 2):
                for buf in (False, True):
                    add('three3', grid, a, b, buf, 3)
        for grid in [(2, 2), (2, 3), (3, 2)]:
            for a, b in itertools.permutations(['A', 'G', 'H'], 2):
                for buf in (False, True):
                    add('gather3', grid, a, b, buf, 3)
        for grid in [(2, 3), (3, 2)]:
            for a, b in itertools.permutations(['mode_solve', 'poloidal', 'v_parallel_2d'], 2):
                add('unconn3', grid, a, b, grid == (2, 3), 3)
        for grid in [(2, 2), (2, 3), (3, 2), (1, 2), (2, 1)]:
            for a, b in (('S', 'G'), ('G', 'S')):
                for buf in (False, True):
                    add('rev3', grid, a, b, buf, 4 if max(grid) < 3 else 3)
    return out


def main():
    run = H.Run(PID, 'proof')
    real, lay = LS.modules()
    if run.args.replay:
        rp = json.load(open(run.args.replay))['replay']
        fam = FAMILIES[rp['family']]
        print(LS.concrete_swapper_transpose(rp['shape'], rp['nprocs'], fam['groups'], fam['procs'](*rp['nprocs']), fam['start'], rp['src'], rp['dst'], rp['buf']))
        sys.exit(0)
    SW = real.LayoutSwapper
    run.functions = H.src_info(SW.__init__, SW._compatibleLayout, SW.getAxes, SW.transpose, SW._transpose, SW._transpose_source_intact,
                               SW._transposeRedirect, SW._transposeRedirect_source_intact, real.LayoutHandler.__init__,
                               real.LayoutHandler.transpose, real.LayoutHandler._transpose, real.LayoutManager._makeConnectionMap)
    run.stubs = LS.stubs() + ['numpy arrays of symbolic shape: lib/symnp.SymArr', 'mpi4py.MPI: lib/simmpi (Create_cart/Sub/Allgather/Alltoall contract)']
    cfgs = configs(run.tier)
    base = dict(family='driver3', nprocs=[2, 2], N=3, tmo=120000, buf=False)
    c1 = dict(base, src='v_parallel_2d', dst='v_parallel_1d', canary=CANARIES[0][1], canary_name=CANARIES[0][0])
    c2 = dict(base, src='v_parallel_1d', dst='v_parallel_2d', canary=CANARIES[1][1], canary_name=CANARIES[1][0])
    cfgs += [c1, c2]
    items = []
    na = False
    for r in H.pmap(enum_paths, cfgs, run.args.jobs):
        run.add_stats(r.get('stats', {}))
        if r.get('canary') == '__not_applicable__':
            na = True          # the canary's edit does not apply to the current source
            continue
        if 'cfg' not in r:
            for i in r.get('inconclusive', []):
                run.inconc(i)
            continue
        if not r['cfg'].get('canary_name'):
            for i in r.get('inconclusive', []):
                run.inconc(i)
            run.configs += 1
        for d in r.get('paths', []):
            items.append((r['cfg'], d))
    run.sections['paths_total'] = len(items)
    caught = {}
    walls = []
    for r in H.pmap(run_item, items, run.args.jobs):
        r['configs'] = 0
        if r.get('canary'):
            run.add_stats(r.get('stats', {}))
            caught[r['canary']] = caught.get(r['canary'], False) or bool(r['violations'])
            continue
        run.merge(r)
        for t_ in r.get('rejected', []):
            run.sections.setdefault('groupings_refused_by_the_constructor', [])
            if t_ not in run.sections['groupings_refused_by_the_constructor']:
                run.sections['groupings_refused_by_the_constructor'].append(t_)
        walls.append((r.get('wall', 0), r.get('cfg')))
    walls.sort(reverse=True)
    run.sections['slowest_paths'] = walls[:5]
    if na:
        caught['__not_applicable__'] = True
    for name, edits in CANARIES:
        hit = caught.get(name, False)
        run.canaries.append(dict(name=name, detected=hit))
        if not hit:
            run.canary_miss(name, caught)
    run.bounds = dict(quick='driver configuration (3 groups, 3-D) on grids (1,2),(2,2),(2,1); all ordered pairs; extents <= 3',
                      thorough='driver 3-D on 8 grids up to (3,3), 4-D analogue, a two-group family; extents <= 4/3', this_run=run.tier)
    run.outside = ['extents above the bound', 'more than 3 processes per direction', 'MPI.DOUBLE hard-coded in Allgather: element byte width is not modelled '
                   '(datatype agreement between members is checked)', 'groupings other than the listed families']
    run.assumptions = ['numpy view semantics per lib/symnp', 'MPI Allgather/Alltoall/Cart contracts per lib/simmpi']
    run.finish(
        explanation='Real LayoutSwapper on bit-vector extents, all ranks; per feasible path every single step (handler transpose, gather, '
                    'scatter, local transpose) is checked against the global field and re-abstracted to its post-condition, the final '
                    'destination is checked on every rank (replicas included), source-intact with buffer, current-manager bookkeeping. '
                    'Sat models replayed on real numpy.',
        rule='case = (family, process grid, source, destination, buffer?) x feasible path (class of extents)')


if __name__ == '__main__':
    main()
