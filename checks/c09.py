"""C09 -- spline quadrature weights integrate the interpolant exactly.

BSplines._build_integrals and SplineInterpolator1D.get_quadrature_coefficients run on exact proxies (solver
contracts as in C08).  For *symbolic data u*, z3 decides   sum_i w_i u_i  ==  sum_j c_j(u) I_j   where c(u) are the
interpolant coefficients produced by the real compute_interpolant and I_j are the exact integrals over the domain of
the (unwrapped) basis functions computed by an independent oracle (piecewise polynomial integration in Q).
Also: sum w == b-a, equal weights on uniform periodic spaces, stored integrals == oracle integrals.
"""
import json
import sys
import time
from fractions import Fraction as Fr

import numpy as np
import z3

from lib import symx, numenv
from lib import harness as H
from lib import splineoracle as SO
from lib.symx import K, SReal, zt, toreal
from checks.c07 import breaks_family, build_space, float_space, oracle_knots, apply_canary, undo_canary
from checks.c08 import sym_data

PID = 'C09'


def float_check(m, degree, periodic, breaks, uf, uvals, T):
    """replay on the float code: weights applied to data vs exact integral of the float interpolant"""
    numenv.disable()
    try:
        fb = float_space(m, degree, periodic, breaks, uf)
        it = m['si'].SplineInterpolator1D(fb)
        w0 = it.get_quadrature_coefficients()
        w0 *= 3.0          # the caller scales ITS array in place (as with a Jacobian), then asks again
        w = np.array(it.get_quadrature_coefficients(), dtype=float)
        sp = m['spl'].Spline1D(fb)
        u = np.array([float(v) for v in uvals])
        it.compute_interpolant(u, sp)
        I = [float(v) for v in SO.basis_integrals_fraction(T, degree, breaks[0], breaks[-1])]
        exact = float(np.dot(sp.coeffs, I))
        got = float(np.dot(w, u))
        stored = np.array(fb.integrals, dtype=float)
    except Exception as e:
        return 'exception %s: %s' % (type(e).__name__, e), None
    finally:
        numenv.enable()
    scale = max(1.0, float(np.max(np.abs(u)))) * float(breaks[-1] - breaks[0])
    info = dict(weights=[float(x) for x in w], sum_weights=float(np.sum(w)), domain_length=float(breaks[-1] - breaks[0]),
                quadrature=got, exact_integral=exact, stored_integrals=[float(x) for x in stored], true_integrals=I)
    if abs(got - exact) > 1e-9 * scale:
        return 'weights give %.12g but the interpolant integrates to %.12g (sum of weights %.12g, domain length %.12g)' % (
            got, exact, float(np.sum(w)), float(breaks[-1] - breaks[0])), info
    return None, info


def work(item):
    degree, periodic, family, ncells, path, canary = item
    res = H.worker_result()
    m = numenv.mods()
    t0 = time.time()
    if canary:
        apply_canary(m, canary)
    numenv.enable()
    symx.set_bv(None)
    breaks = breaks_family(family, ncells)
    uf = (path == 'cu')
    T = oracle_knots(breaks, degree, periodic, path)
    a, b = breaks[0], breaks[-1]
    I = SO.basis_integrals_fraction(T, degree, a, b)          # one per unwrapped basis function (ncells+degree)
    cls = 'uniform_cubic_clamped_few_cells' if (uf and not periodic and ncells < 3) else \
          ('periodic_nonuniform' if (periodic and family != 'uniform') else 'general')

    def body(ctx):
        knots, basis = build_space(m, degree, periodic, breaks, uf)
        interp = m['si'].SplineInterpolator1D(basis)
        w0 = interp.get_quadrature_coefficients()
        w0 *= K(3)          # the caller scales ITS array in place (as with a Jacobian), then asks again
        w = interp.get_quadrature_coefficients()
        sp = m['spl'].Spline1D(basis)
        u = sym_data(basis.nbasis)
        interp.compute_interpolant(u, sp)
        return list(w), list(u), list(sp.coeffs), list(basis.integrals)

    for ctx, (kind, val) in symx.explore(body, timeout_ms=30000):
        if kind != 'ok':
            if kind == 'abort' and not val.inconclusive:
                continue
            res['obligations'] += 1
            prob, info = float_check(m, degree, periodic, breaks, uf, [1.0] * (ncells + (0 if periodic else degree)), T)
            if kind == 'exc' and prob and prob.startswith('exception'):
                res['violations'].append(('quadrature:%s:exception' % cls, '%r: %s' % (item[:5], prob), dict(kind='quad', item=[str(v) for v in item[:5]], concrete=prob)))
                continue
            # the symbolic run stopped in something the exact environment does not model (a new library call): no proof is
            # possible, but the real float code may still exhibit a disagreement with the exact integral on concrete data
            rng = np.random.RandomState(17)
            nd = ncells + (0 if periodic else degree)
            for trial in range(4):
                data = [1.0] * nd if trial == 0 else [float(x) for x in rng.rand(nd) * 2 - 1]
                prob, info = float_check(m, degree, periodic, breaks, uf, data, T)
                if prob:
                    break
            if prob:
                res['violations'].append(('quadrature:%s' % cls, 'degree %d %s %s cells=%d path=%s: %s (witness from the float run; symbolic run: %s %s)' % (
                    degree, 'periodic' if periodic else 'clamped', family, ncells, path, prob, kind, str(val)[:80]),
                    dict(kind='quad', item=[str(v) for v in item[:5]], concrete=prob, info=info)))
            else:
                res['inconclusive'].append('quadrature: %s %r %r' % (kind, val, item[:5]))
            continue
        w, u, c, stored = val
        quad = K(0)
        for wi, ui in zip(w, u):
            quad = quad + wi * ui
        exact = K(0)
        for cj, Ij in zip(c, I):
            exact = exact + cj * K(Ij)
        checks = [('weights do not integrate the interpolant', toreal(zt(quad)) != toreal(zt(exact)))]
        sw = K(0)
        for wi in w:
            sw = sw + wi
        checks.append(('weights do not sum to the domain length', toreal(zt(sw)) != z3.RealVal(b - a)))
        if periodic and family == 'uniform':
            checks.append(('uniform periodic weights differ', z3.Or([toreal(zt(wi)) != toreal(zt(w[0])) for wi in w[1:]]) if len(w) > 1 else z3.BoolVal(False)))
        # periodic spaces: what is relied upon (and all the property can mean for a periodic basis function) is the
        # integral of the *periodic* function i = unwrapped pieces i and n+i together
        n = len(u)
        if periodic:
            st_w = [stored[i] + stored[n + i] if i < degree else stored[i] for i in range(n)]
            I_w = [I[i] + I[n + i] if i < degree else I[i] for i in range(n)]
        else:
            st_w, I_w = stored, I
        checks.append(('stored basis integrals differ from the true integrals',
                       z3.Or([toreal(zt(K(s))) != z3.RealVal(Ij) for s, Ij in zip(st_w, I_w)] + [z3.BoolVal(len(stored) != len(I))])))
        for what, cond in checks:
            res['obligations'] += 1
            r = ctx.check(cond)
            if r == 'unsat':
                res['discharged'] += 1
                res['nontrivial'].append('quad|%r|%s' % (item[:5], what[:12]))
                continue
            if r != 'sat':
                res['inconclusive'].append('unknown quadrature query %r' % (item[:5],))
                continue
            mdl = ctx.model()
            uv = [symx.model_value(mdl, ui) for ui in u]
            if all(v == 0 for v in uv):
                uv = [Fr(1)] * len(uv)
            prob, info = float_check(m, degree, periodic, breaks, uf, uv, T)
            if what.startswith('stored') and info is not None:
                si_, ti_ = list(info['stored_integrals']), list(info['true_integrals'])
                if periodic and len(si_) == len(ti_):
                    si_ = [si_[i] + si_[n + i] if i < degree else si_[i] for i in range(n)]
                    ti_ = [ti_[i] + ti_[n + i] if i < degree else ti_[i] for i in range(n)]
                d = max(abs(x - y) for x, y in zip(si_, ti_)) if len(si_) == len(ti_) else 1.0
                if d > 1e-10:
                    prob = prob or 'stored basis integrals %s differ from true integrals %s' % (
                        [round(x, 6) for x in info['stored_integrals']], [round(x, 6) for x in info['true_integrals']])
            if what.startswith('weights do not sum') and info is not None and abs(info['sum_weights'] - info['domain_length']) > 1e-10:
                prob = prob or 'weights sum to %.12g on a domain of length %.12g' % (info['sum_weights'], info['domain_length'])
            if what.startswith('uniform periodic') and info is not None and (max(info['weights']) - min(info['weights'])) > 1e-10:
                prob = prob or 'uniform periodic weights are not all equal'
            rep = dict(kind='quad', item=[str(v) for v in item[:5]], fact=what, data=[str(v) for v in uv], concrete=prob, info=info, canary=bool(canary))
            if prob:
                res['violations'].append(('quadrature:%s' % cls, '%s: degree %d %s %s cells=%d path=%s: %s' % (
                    what, degree, 'periodic' if periodic else 'clamped', family, ncells, path, prob), rep))
            else:
                res['inconclusive'].append('quadrature model does not reproduce in floats: %s %r' % (what, item[:5]))
        if len(res['samples']) < 1:
            res['samples'].append(dict(config=[str(v) for v in item[:5]], weights=[str(symx.fval(x)) for x in w][:5], true_integrals=[str(x) for x in I][:5]))
    numenv.disable()
    if canary:
        undo_canary(m)
    res['stats'] = symx.GLOBAL.as_dict()
    symx.GLOBAL.__init__()
    res['wall'] = round(time.time() - t0, 2)
    res['canary'] = canary[0] if canary else None
    return res


# ----------------------------------------------------------------------------- binary64: discrete decisions of the fast path
def work_fp_integrals(item):
    """BSplines.__init__ (clamped uniform-cubic space; its _build_integrals evaluates auxiliary splines at points that are
    knots in exact arithmetic) with xmin, xmax arbitrary doubles, ncells concrete, break points = numpy.linspace's algorithm.
      1. reference run in exact reals: the knot spans found by nu_find_span (one path expected);
      2. the same code on rounded reals (every operation exact*(1+d), |d| <= 2^-53): for every feasible path the spans must be
         those of the reference run -- decided in QF_NRA for ALL doubles of the stated range;
      3. only if a deviating path is feasible in (2): the same path on binary64 proxies (QF_FP) to obtain real doubles,
         replayed on the real float code against the true integrals."""
    from lib import symfp
    ncells, canary = item
    res = H.worker_result()
    m = numenv.mods()
    t0 = time.time()
    if canary:
        apply_canary(m, canary)
    numenv.disable()
    spl, sef = m['spl'], m['sef']
    spans = []
    real_find = spl.nu_find_span

    def rec_find(knots, degree, x):
        r = real_find(knots, degree, x)
        spans.append(int(r))
        return r

    LO, HI, WLO, WHI = -100.0, 100.0, 2.0 ** -6, 200.0

    def make_body(mode, fixed_xmin=None):
        def body(ctx):
            del spans[:]
            ctx.oneshot = True
            symfp.SRd.BOUND = 4096           # |xmin| <= 100, 11*dx <= 2200: every knot and test point is below 4096
            if mode == 'fp':
                xmin, xmax = symfp.var('xmin'), symfp.var('xmax')
                F = symfp.lift
                w = z3.fpSub(symfp.RNE, xmax.t, xmin.t)
                ctx.assume(z3.And(z3.fpGEQ(xmin.t, F(LO)), z3.fpLEQ(xmin.t, F(HI)), z3.fpGEQ(w, F(WLO)), z3.fpLEQ(w, F(WHI))))
                if fixed_xmin is not None:
                    ctx.assume(z3.fpEQ(xmin.t, F(fixed_xmin)))
                    xmin = symfp.SF(F(fixed_xmin))
            else:
                a, b = z3.Real('xmin'), z3.Real('xmax')
                ctx.assume(z3.And(a >= LO, a <= HI, b - a >= z3.RealVal(1) / 64, b - a <= WHI))
                cls = symfp.SEx if mode == 'exact' else symfp.SRd
                xmin, xmax = cls(a), cls(b)
            shim = symfp.FPNumpy()
            breaks = shim.linspace(xmin, xmax, ncells + 1)
            knots = shim.array([breaks[0]] * 3 + list(breaks) + [breaks[-1]] * 3)
            basis = spl.BSplines(knots, 3, False, True)
            return xmin, xmax, list(basis.integrals)
        return body

    saved = (spl.np, spl.nu_find_span, sef.empty)
    spl.np, spl.nu_find_span, sef.empty = symfp.FPNumpy(), rec_find, symfp.FPNumpy.empty
    try:
        ref = None
        for ctx, (kind, val) in symx.explore(make_body('exact'), timeout_ms=60000, maxpaths=50):
            if kind == 'abort' and not val.inconclusive:
                continue
            if kind != 'ok' or ref is not None:
                res['obligations'] += 1
                res['inconclusive'].append('binary64 integrals: reference run in exact reals is not a single path (%s %r, cells %d)' % (kind, val, ncells))
                ref = False
                break
            ref = list(spans)
        if ref:
            for ctx, (kind, val) in symx.explore(make_body('rounded'), timeout_ms=120000, maxpaths=200):
                if kind == 'abort':
                    if val.inconclusive:
                        res['obligations'] += 1
                        res['inconclusive'].append('binary64 integrals: %s (cells %d)' % (val.why, ncells))
                    continue
                res['obligations'] += 1
                if kind == 'ok' and list(spans) == ref:
                    res['discharged'] += 1
                    res['nontrivial'].append('fpint|%d|%s' % (ncells, ''.join('T' if d['choice'] else 'F' for d in ctx.decisions)))
                    continue
                # a path whose knot spans differ from the exact run (or an exception) is feasible for rounded reals: witness in binary64
                got_spans = list(spans)
                dec = [dict(d) for d in ctx.decisions]
                # witness search in binary64: the left end fixed to a candidate (the rounded-real model's value first), the
                # right end a free double -- one symbolic double keeps the bit-blasted query small
                am = ctx.model() if ctx.check() == 'sat' else None
                cands = []
                if am is not None:
                    try:
                        cands.append(float(Fr(str(am.eval(z3.Real('xmin'), model_completion=True).as_fraction()))))
                    except Exception:
                        pass
                cands += [0.0, -2.5, 0.1, -1.0, 2.0]
                # (a) cheap: doubles around the rounded-real model and a fixed pseudo-random set, run through the real float code
                #     (a witness is a witness however it is found; the verdict 'not provable' came from the solver)
                rng = np.random.RandomState(12345)
                found = None
                for k in range(400):
                    a = cands[k % len(cands)]
                    b = a + float(rng.uniform(WLO, 20.0))
                    prob = replay_fp_integrals(m, saved, a, b, ncells)
                    if prob:
                        found = (a, b, prob)
                        break
                if found:
                    a, b, prob = found
                    rep = dict(kind='fp_integrals', xmin=repr(a), xmax=repr(b), ncells=ncells, spans=got_spans, reference_spans=ref, concrete=prob, canary=bool(canary), witness='probe')
                    res['violations'].append(('integrals:binary64', '%s (knot spans %s instead of %s possible under rounding)' % (prob, got_spans, ref), rep))
                    continue
                # (b) the same path on binary64 proxies
                r, fctx = 'unknown', None
                for cx in cands:
                    fctx, (fk, fv) = symx.run_path(make_body('fp', cx), dec, timeout_ms=90000)
                    r = fctx.check() if fk in ('ok', 'exc') else 'unknown'
                    if r == 'sat':
                        break
                if r == 'sat':
                    mdl = fctx.model()
                    a = symfp.model_float(mdl, z3.FP('xmin', symfp.F64))
                    b = symfp.model_float(mdl, z3.FP('xmax', symfp.F64))
                    prob = replay_fp_integrals(m, saved, a, b, ncells)
                    rep = dict(kind='fp_integrals', xmin=repr(a), xmax=repr(b), ncells=ncells, spans=got_spans, reference_spans=ref, concrete=prob, canary=bool(canary))
                    if prob:
                        res['violations'].append(('integrals:binary64', '%s (knot spans %s instead of %s)' % (prob, got_spans, ref), rep))
                    else:
                        res['inconclusive'].append('binary64 integrals: deviating spans %s for xmin=%r xmax=%r cells=%d, but the stored integrals are right there' % (got_spans, a, b, ncells))
                else:
                    res['inconclusive'].append('binary64 integrals: path with spans %s (reference %s) feasible for rounded reals, binary64 query: %s (cells %d)' % (got_spans, ref, r, ncells))
    finally:
        spl.np, spl.nu_find_span, sef.empty = saved
    if canary:
        undo_canary(m)
    res['stats'] = symx.GLOBAL.as_dict()
    symx.GLOBAL.__init__()
    res['wall'] = round(time.time() - t0, 2)
    res['canary'] = canary[0] if canary else None
    return res


def replay_fp_integrals(m, saved, a, b, ncells):
    """the real float constructor on numpy.linspace(a, b, ncells+1): stored integrals against the true ones"""
    spl, sef = m['spl'], m['sef']
    cur = (spl.np, spl.nu_find_span, sef.empty)
    spl.np, spl.nu_find_span, sef.empty = saved
    try:
        breaks = np.linspace(a, b, ncells + 1)
        basis = spl.BSplines(spl.make_knots(breaks, 3, False), 3, False, True)
        got = np.array(basis.integrals, dtype=float)
        dx = (Fr(b) - Fr(a)) / ncells
        T = [Fr(a) + (i - 3) * dx for i in range(ncells + 7)]
        want = np.array([float(x) for x in SO.basis_integrals_fraction(T, 3, Fr(a), Fr(b))])
        err = float(np.max(np.abs(got - want)))
        if err > 1e-9 * float(dx):
            return 'stored integrals of the clamped uniform-cubic space on linspace(%r, %r, %d) differ from the true integrals by %.3g (dx = %.3g): %s vs %s' % (
                a, b, ncells + 1, err, float(dx), [round(float(x), 6) for x in got[:4]], [round(float(x), 6) for x in want[:4]])
    except Exception as e:
        return 'exception %s: %s' % (type(e).__name__, e)
    finally:
        spl.np, spl.nu_find_span, sef.empty = cur
    return None


FP_INT_CANARY = ('auxiliary splines evaluated one knot further right', 'spl', [("                test_pt = xmin + 4*dx\n", "                test_pt = xmin + 5*dx\n")])


def work_symknots(item):
    """stored basis integrals with *symbolic break points* (real make_knots + BSplines constructor incl. _build_integrals):
    for every admissible position of the symbolic break points the integral of each (periodic) basis function equals the oracle
    value (t_{j+p+1}-t_j)/(p+1) restricted to the domain, computed by piecewise integration of the oracle polynomials"""
    degree, periodic, ncells, which, family = item
    res = H.worker_result()
    m = numenv.mods()
    numenv.enable()
    symx.set_bv(None)
    base = breaks_family(family, ncells)
    st = {}

    def body(ctx):
        bs = []
        for i in range(ncells + 1):
            bs.append(SReal(z3.Real('b%d' % i)) if (which == 'all' or which == i) else K(base[i]))
        for i in range(ncells):
            ctx.assume(toreal(zt(bs[i])) < toreal(zt(bs[i + 1])))
        arr = np.empty(ncells + 1, dtype=object)
        for i, b in enumerate(bs):
            arr[i] = b
        knots = m['spl'].make_knots(arr, degree, periodic)
        basis = m['spl'].BSplines(knots, degree, periodic, False)
        st['bs'] = bs
        return list(basis.integrals)

    for ctx, (kind, val) in symx.explore(body, timeout_ms=30000, index_cap=64, maxpaths=400):
        if kind != 'ok':
            if kind == 'abort' and not val.inconclusive:
                continue
            res['obligations'] += 1
            res['inconclusive'].append('symbolic knots (integrals): %s %r %r' % (kind, val, item))
            continue
        bs = st['bs']
        T = SO.math_knots(bs, degree, periodic)
        n = ncells if periodic else ncells + degree
        # oracle: integral of B_j over its support clipped to [a,b]: sum over the cells of the domain of the exact integral of the cell polynomial
        a, b = bs[0], bs[-1]
        I = [K(0)] * (ncells + degree)
        mpts = degree + 1
        w = SO._newton_cotes_weights(mpts)
        for cell in range(degree, degree + ncells):
            lo, hi = T[cell], T[cell + 1]
            xs = [lo + (hi - lo) * K(Fr(i, mpts - 1)) if mpts > 1 else lo for i in range(mpts)]
            vals = [SO.cell_basis(T, degree, cell, xx, 0) for xx in xs]
            for j in range(ncells + degree):
                sacc = K(0)
                for i in range(mpts):
                    v = vals[i][j]
                    if not (isinstance(v, int) and v == 0):
                        sacc = sacc + v * K(w[i])
                I[j] = I[j] + sacc * (hi - lo)
        stored = val
        if periodic:
            st_w = [stored[i] + stored[n + i] if i < degree else stored[i] for i in range(n)]
            I_w = [I[i] + I[n + i] if i < degree else I[i] for i in range(n)]
        else:
            st_w, I_w = stored, I
        res['obligations'] += 1
        verdict = 'unsat'
        for j, (s_, e_) in enumerate(zip(st_w, I_w)):
            sol = symx.nra_solver(list(ctx.solver.assertions()) + [toreal(zt(K(s_))) != toreal(zt(K(e_)))], 30000)
            r = str(sol.check())
            if r == 'sat':
                mdl = sol.model()
                bv = [str(symx.model_value(mdl, x)) for x in bs]
                res['violations'].append(('quadrature:symbolic_knots', 'stored integral of basis function %d differs from its true integral for break points %s (degree %d, %s)' % (
                    j, bv, degree, 'periodic' if periodic else 'clamped'), dict(kind='symknots', item=[str(i) for i in item], breaks=bv)))
                verdict = 'sat'
                break
            if r != 'unsat':
                verdict = 'unknown'
        if verdict == 'unsat':
            res['discharged'] += 1
            res['nontrivial'].append('symknots|%r|%d' % (item, len(ctx.decisions)))
            if len(res['samples']) < 1:
                res['samples'].append(dict(part='stored integrals, symbolic break points', config=[str(i) for i in item]))
        elif verdict == 'unknown':
            res['inconclusive'].append('unknown (integrals, symbolic knots) %r' % (item,))
    numenv.disable()
    res['stats'] = symx.GLOBAL.as_dict()
    symx.GLOBAL.__init__()
    return res


CANARIES = [
    ('antiderivative scale uses degree instead of degree+1', 'spl', [("inv_deg = 1 / (d + 1)", "inv_deg = 1 / (d + 1) if d != 2 else 1 / d")]),
    ('quadrature solve not transposed', 'si', [("self._bmat, self._l, self._u, self._basis.integrals, self._ipiv, trans=True)", "self._bmat, self._l, self._u, self._basis.integrals, self._ipiv, trans=False)")]),
]


def configs(tier):
    out = []
    if tier == 'quick':
        degs, fams, cells = [1, 2, 3, 4, 5], ['uniform', 'graded', 'irregular'], lambda d: [d, d + 1, d + 3]
    else:
        degs, fams, cells = [1, 2, 3, 4, 5, 6, 7, 8, 9, 10], ['uniform', 'graded', 'decreasing', 'alternating', 'geometric', 'irregular'], lambda d: [1, 2, 3, d, d + 1, d + 2, 8, 12]
    for d in degs:
        for fam in fams:
            for n in sorted(set(cells(d))):
                for per in (False, True):
                    if per and n < d:            # make_knots admits periodic spaces with ncells >= degree
                        continue
                    out.append((d, per, fam, n, 'nu', None))
    for n in ([1, 2, 3, 5] if tier == 'quick' else [1, 2, 3, 4, 5, 6, 8]):
        for per in (False, True):
            if per and n < 3:
                continue
            out.append((3, per, 'uniform', n, 'cu', None))
    return out


def main():
    run = H.Run(PID, 'proof')
    m = numenv.mods()
    if run.args.replay:
        rp = json.load(open(run.args.replay))['replay']
        it = rp['item']
        degree, periodic, family, ncells, path = int(it[0]), it[1] == 'True', it[2], int(it[3]), it[4]
        numenv.enable()
        breaks = breaks_family(family, ncells)
        print(float_check(m, degree, periodic, breaks, path == 'cu', [Fr(x) for x in rp['data']], oracle_knots(breaks, degree, periodic, path)))
        sys.exit(0)
    si, spl = m['si'], m['spl']
    run.functions = H.src_info(spl.BSplines._build_integrals, si.SplineInterpolator1D.get_quadrature_coefficients,
                               si.SplineInterpolator1D.__init__, si.SplineInterpolator1D.compute_interpolant)
    cfgs = configs(run.tier)
    cfgs.append((2, False, 'graded', 4, 'nu', CANARIES[0]))
    cfgs.append((3, False, 'irregular', 5, 'nu', CANARIES[1]))
    caught = {}
    for r in H.pmap(work, cfgs, run.args.jobs):
        if r.get('canary'):
            run.add_stats(r.get('stats', {}))
            caught[r['canary']] = bool(r['violations'])
            continue
        run.merge(r)
    fp_items = [(n, None) for n in ([1, 2, 3, 5, 8] if run.tier == 'quick' else [1, 2, 3, 4, 5, 6, 7, 8, 12, 16, 32])] + [(3, FP_INT_CANARY)]
    for r in H.pmap(work_fp_integrals, fp_items, run.args.jobs):
        if r.get('canary'):
            run.add_stats(r.get('stats', {}))
            caught[r['canary']] = bool(r['violations'])
            continue
        run.merge(r)
    run.sections['binary64_integrals_cells'] = [it[0] for it in fp_items[:-1]]
    if True:                # cheap enough for both tiers
        sk = []
        for d in (1, 2):
            for per in (False, True):
                for n in (2, 3):
                    if per and n <= d:
                        continue
                    sk.append((d, per, n, 'all', 'graded'))
        for per in (False, True):
            for k in (1, 2):
                sk.append((3, per, 4, k, 'irregular'))
        for r in H.pmap(work_symknots, sk, run.args.jobs):
            run.merge(r)
        run.sections['symbolic_break_point_configs'] = len(sk)
    for cn in CANARIES + [FP_INT_CANARY]:
        hit = caught.get(cn[0], False)
        run.canaries.append(dict(name=cn[0], detected=hit))
        if not hit:
            run.canary_miss(cn[0], caught)
    numenv.enable()
    run.stubs = sorted(set(numenv.STUBS))
    numenv.disable()
    run.bounds = dict(quick='degrees 1-5, 3 knot families, cells d+1/d+3, uniform cubic fast path 1,2,3,5 cells', thorough='degrees 1-10, 6 families, cells {1,2,3,d,d+1,d+2,8,12}', this_run=run.tier)
    run.outside = ['rounding of the arithmetic (the discrete decisions of the uniform-cubic clamped constructor -- knot spans of its auxiliary evaluation points -- ARE decided for all doubles xmin in [-100,100], width in [2^-6,200], listed cell counts: rounded-real model, every operation exact + e with |e| <= 2^-53*4096)', 'LAPACK/SuperLU elimination (contract)', 'symbolic break points for the weights (thorough decides the stored basis integrals for all break points of degree 1-2 spaces with 2-3 cells and one symbolic break point of cubic spaces)']
    run.assumptions = ['exact reals for doubles', 'solver contracts as in C08']
    run.finish(
        explanation='Real _build_integrals / get_quadrature_coefficients / compute_interpolant on symbolic data: z3 decides that the '
                    'weights applied to any data equal the exact integral of the interpolant (oracle basis integrals by piecewise '
                    'polynomial integration in Q), that weights sum to the domain length, are equal on uniform periodic spaces, and that '
                    'the stored basis integrals equal the true ones.  Models are replayed on the float code.',
        rule='case = spline space (degree, boundary, knot family, cells, kernel path) x fact')


if __name__ == '__main__':
    main()
