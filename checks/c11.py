"""C11 -- v-parallel advection evaluates the interpolant at v - c*dt; boundary rule holds.

The real VParallelAdvection.step (interpolation through the C08 machinery, then v_parallel_advection_eval_step with
its three boundary branches) runs with all nodal values symbolic and the shift s = c*dt a z3 Real in a bounded
interval; the boundary tests and span searches fork on s, each path is an interval of s.  z3 decides, coefficient by
coefficient in the data, that every new nodal value equals the oracle interpolant (independent collocation + Cox-de
Boor) at v_i - s, or the equilibrium at (r, foot) / zero / the periodic image outside [vMin, vMax].
"""
import json
import sys
import time
from fractions import Fraction as Fr

import numpy as np
import z3

from lib import symx, numenv, dist
from lib import harness as H
from lib import splineoracle as SO
from lib.symx import K, SReal, zt, toreal
from checks.c07 import oracle_knots, apply_canary, undo_canary, decide, path_cell, breaks_family, EPS
from checks.c08 import sym_data

PID = 'C11'
EDGES = ['fEq', 'null', 'periodic']


class Consts:
    CN0, kN0, deltaRN0, rp = Fr(1, 10), Fr(11, 200), Fr(29, 10), Fr(73, 10)
    CTi, kTi, deltaRTi = Fr(5, 4), Fr(27586, 100000), Fr(145, 100)      # CTi != 1: a scale in the wrong place is visible
    CTe, kTe, deltaRTe = Fr(3, 2), Fr(1, 5), Fr(2)          # deliberately different from the ion values


def vbreaks(path, ncells, family='graded'):
    if path in ('cu', 'nueq'):          # 'nueq': equally spaced break points on the GENERAL path (basis not flagged uniform)
        return dist.uniform_breaks(-2, 2, ncells)
    b = breaks_family(family, ncells)
    return b


def work(item):
    degree, ncells, path, edge, smax, canary = item[:6]
    hist = len(item) > 6 and item[6]          # an earlier step (other shift, other radius, other data) on the same object
    res = H.worker_result()
    m = dist.mods()
    adv = H.repo_import('pygyro.advection.advection')
    acc = H.repo_import('pygyro.advection.accelerated_advection_steps')
    t0 = time.time()
    if canary:
        apply_canary(dict(m, adv=adv, acc=acc), canary)
    numenv.enable(extra_modules=[(adv, dict(int=numenv.symint)), (acc, dict(int=numenv.symint)), (m['init_funcs'], None)])
    symx.set_bv(None)
    breaks = vbreaks(path, ncells)
    uf_ = (path == 'cu')
    T = oracle_knots(breaks, degree, False, path)
    vmin, vmax = breaks[0], breaks[-1]
    width = vmax - vmin
    st = {}

    def body(ctx):
        basis = dist.make_basis(degree, False, breaks, uniform=uf_)
        pts = list(basis.greville)
        n = len(pts)
        eta = [None, None, None, np.array(pts, dtype=object)]
        va = adv.VParallelAdvection(eta, basis, Consts, edge=edge)
        f = sym_data(n, 'f')
        f0 = list(f)
        s = z3.Real('s')
        ctx.assume(z3.And(s >= -z3.RealVal(smax * width), s <= z3.RealVal(smax * width)))
        r = SReal(z3.Real('r'))
        ctx.assume(r.t > 0)
        st.update(f0=f0, s=s, pts=pts, r=r, n=n)
        if hist:
            g = np.empty(n, dtype=object)
            for k in range(n):
                g[k] = K(Fr(2 + k * k, 5))
            va.step(g, K(1), K(width * Fr(5, 4)), K(Fr(7, 3)))
        va.step(f, K(1), SReal(s), r)
        return list(f)

    def replay(mdl, j, i):
        """float replay: data = unit vector e_j (or the constant term: zeros), shift from the model"""
        sv = symx.model_value(mdl, SReal(st['s']))
        rv = symx.model_value(mdl, st['r'])
        n = st['n']
        data = [Fr(1) if k == j else Fr(0) for k in range(n)]
        numenv.disable()
        try:
            kn = m['spl'].make_knots(np.array([float(b) for b in breaks]), degree, False)
            fb = m['spl'].BSplines(kn, degree, False, uf_)
            pts = np.array(fb.greville, dtype=float)

            class FC:
                pass
            for k_ in ('CN0', 'kN0', 'deltaRN0', 'rp', 'CTi', 'kTi', 'deltaRTi', 'CTe', 'kTe', 'deltaRTe'):
                setattr(FC, k_, float(getattr(Consts, k_)))
            va = adv.VParallelAdvection([None, None, None, pts], fb, FC, edge=edge)
            f = np.array([float(x) for x in data])
            if hist:
                va.step(np.array([(2 + k * k) / 5.0 for k in range(n)]), 1.0, float(width * Fr(5, 4)), 7.0 / 3.0)
            va.step(f, 1.0, float(sv), float(rv))
            got = float(f[i])
            foot = Fr(pts[i]).limit_denominator(10 ** 12) - Fr(sv)
            exact = oracle_value_fraction(foot, data, [Fr(p).limit_denominator(10 ** 12) for p in pts], float(rv))
        except Exception as e:
            return 'exception %s: %s' % (type(e).__name__, e), sv
        finally:
            numenv.enable()
        if exact is None:
            return None, sv
        if abs(got - exact) > 1e-9 * max(1.0, abs(exact)):
            return 'node %d after shift s=%s: code %.12g, interpolant at the foot %.12g' % (i, float(sv), got, exact), sv
        return None, sv

    def oracle_value_fraction(foot, data, pts, rv):
        if foot < vmin or foot > vmax:
            if edge == 'null':
                return 0.0
            if edge == 'fEq':
                numenv.disable()
                try:
                    return float(m['init_funcs'].f_eq(rv, float(foot), *[float(getattr(Consts, k_)) for k_ in ('CN0', 'kN0', 'deltaRN0', 'rp', 'CTi', 'kTi', 'deltaRTi')]))
                finally:
                    numenv.enable()
            while foot < vmin:
                foot += width
            while foot > vmax:
                foot -= width
        c = SO.interpolant_coeffs(T, degree, False, ncells, pts, data)
        return float(SO.eval_fraction(T, degree, c, foot, 0))

    npaths = 0
    for ctx, (kind, val) in symx.explore(body, timeout_ms=30000, index_cap=64, maxpaths=5000):
        npaths += 1
        if kind == 'abort':
            if val.inconclusive:
                prob = None
                if ctx.check() == 'sat' and 'n' in st:
                    for (jj, ii) in ((0, 0), (st['n'] - 1, st['n'] - 1), (1, 0)):
                        prob, sv = replay(ctx.model(), jj, ii)       # the float run may decide what the symbolic run could not finish
                        if prob:
                            break
                if prob:
                    res['obligations'] += 1
                    res['violations'].append(('vpar:%s' % edge, '%s (witness from the float run; symbolic run: %s) [%r]' % (prob, val.why, item[:5]),
                                              dict(kind='vpar', item=[str(x) for x in item[:5]], s=str(sv))))
                else:
                    res['inconclusive'].append('abort %s %r' % (val.why, item[:5]))
            continue
        if kind == 'exc':
            res['obligations'] += 1
            if ctx.check() == 'sat':
                prob, sv = replay(ctx.model(), 0, 0)
                if prob:
                    res['violations'].append(('vpar:%s:exception' % edge, '%s: %s / %s' % (type(val).__name__, str(val)[:100], prob),
                                              dict(kind='vpar', item=[str(x) for x in item[:5]], s=str(sv))))
                    continue
            res['inconclusive'].append('exception on the model only: %r %r' % (val, item[:5]))
            continue
        f0, s, pts, r, n = st['f0'], SReal(st['s']), st['pts'], st['r'], st['n']
        fvars = [x.t for x in f0]
        names = set(v.decl().name() for v in fvars)
        coef = SO.interpolant_coeffs(T, degree, False, ncells, [symx.fval(p) for p in pts], f0)
        for i in range(n):
            foot = pts[i] - s
            # which region does the path put the foot in?
            lo_out = ctx.check(toreal(zt(foot)) >= z3.RealVal(vmin)) == 'unsat'
            hi_out = ctx.check(toreal(zt(foot)) <= z3.RealVal(vmax)) == 'unsat'
            if lo_out or hi_out:
                if edge == 'null':
                    exp = K(0)
                elif edge == 'fEq':
                    exp = m['init_funcs'].f_eq(r, foot, Consts.CN0, Consts.kN0, Consts.deltaRN0, Consts.rp, Consts.CTi, Consts.kTi, Consts.deltaRTi)
                else:
                    # periodic image: find the integer number of periods the path implies
                    exp = None
                    # the image reached by stepping towards the domain one period at a time (at exact multiples of the
                    # period both end points are images; the first one reached is taken, as any stepping rule would)
                    for kk in (range(-1, -2 * smax - 3, -1) if hi_out else range(1, 2 * smax + 3)):
                        img = foot + K(kk * width)
                        if ctx.check(z3.Not(z3.And(toreal(zt(img)) >= z3.RealVal(vmin), toreal(zt(img)) <= z3.RealVal(vmax)))) == 'unsat':
                            cell = path_cell(ctx, T, degree, img)
                            exp = oracle_eval(T, degree, coef, img, cell)
                            break
                    if exp is None:
                        res['inconclusive'].append('periodic image not determined on path %r' % (item[:5],))
                        continue
            else:
                inside = ctx.check(z3.Not(z3.And(toreal(zt(foot)) >= z3.RealVal(vmin), toreal(zt(foot)) <= z3.RealVal(vmax)))) == 'unsat'
                if not inside:
                    res['inconclusive'].append('path does not decide the boundary test for node %d %r' % (i, item[:5]))
                    continue
                cell = path_cell(ctx, T, degree, foot)
                exp = oracle_eval(T, degree, coef, foot, cell)
            res['obligations'] += 1
            diff = toreal(zt(val[i])) - toreal(zt(exp))
            if symx.lin_degree(diff, names) is None:
                res['inconclusive'].append('result not syntactically linear in the data %r' % (item[:5],))
                continue
            verdict = 'unsat'
            for cname, ct in symx.coefficient_terms(diff, fvars).items():
                if z3.is_rational_value(ct) and ct.numerator_as_long() == 0:
                    continue
                rr, mm = decide(ctx, ct != 0, res, 'vpar')
                if rr == 'sat':
                    j = [v.decl().name() for v in fvars].index(cname) if cname else -1
                    prob, sv = replay(mm, j, i)
                    rep = dict(kind='vpar', item=[str(x) for x in item[:5]], node=i, data_unit=j, s=str(sv), concrete=prob, canary=bool(canary))
                    if prob:
                        res['violations'].append(('vpar:%s' % edge, '%s [%r]' % (prob, item[:5]), rep))
                        verdict = 'violation'
                    else:
                        res['inconclusive'].append('model does not reproduce in floats: %r' % rep)
                        verdict = 'inconclusive'
                    break
                if rr != 'unsat':
                    verdict = 'unknown'
                    res['inconclusive'].append('unknown query %r node %d' % (item[:5], i))
                    break
            if verdict == 'unsat':
                res['discharged'] += 1
        if ctx.check() == 'sat':
            sv = symx.model_value(ctx.model(), s)
            res['nontrivial'].append('vpar|%r|%s' % (item[:5], ''.join('T' if d['choice'] else 'F' for d in ctx.decisions)))
            if len(res['samples']) < 1:
                res['samples'].append(dict(config=[str(x) for x in item[:5]], example_shift=str(sv), path_decisions=len(ctx.decisions)))
    numenv.disable()
    if canary:
        undo_canary(None)
    res['stats'] = symx.GLOBAL.as_dict()
    symx.GLOBAL.__init__()
    res['paths'] = npaths
    res['wall'] = round(time.time() - t0, 2)
    res['canary'] = canary[0] if canary else None
    return res


def oracle_eval(T, p, coef, x, cell):
    if cell is None:
        lo, hi = p, len(T) - p - 2
        val = None
        for c in range(hi, lo - 1, -1):
            v = oracle_eval(T, p, coef, x, c)
            val = v if val is None else symx.ite(x < T[c + 1], v, val)
        return val
    B = SO.cell_basis(T, p, cell, x, 0)
    acc = K(0)
    for c, b in zip(coef, B):
        if not (isinstance(b, int) and b == 0):
            acc = acc + c * b
    return acc


CANARIES = [
    ('boundary test uses >= at the upper end', 'acc', [("    if (bound == 0):\n        for i, v in enumerate(vPts):\n            if (v < vMin or v > vMax):",
                                                        "    if (bound == 0):\n        for i, v in enumerate(vPts):\n            if (v < vMin or v > vMax - 0.25):")]),
    ('shift applied with the wrong sign', 'adv', [("v_parallel_advection_eval_step(f, self._points-c*dt, r, self._points[0],", "v_parallel_advection_eval_step(f, self._points+c*dt, r, self._points[0],")]),
]


def main():
    run = H.Run(PID, 'proof')
    m = dist.mods()
    adv = H.repo_import('pygyro.advection.advection')
    acc = H.repo_import('pygyro.advection.accelerated_advection_steps')
    if run.args.replay:
        print(json.dumps(json.load(open(run.args.replay))['replay'], indent=1))
        sys.exit(0)
    run.functions = H.src_info(adv.VParallelAdvection.__init__, adv.VParallelAdvection.step, acc.v_parallel_advection_eval_step,
                               acc.general_v_parallel_advection_eval_step, m['init_funcs'].f_eq)
    quick = run.tier == 'quick'
    items = []
    for edge in EDGES:
        items.append((3, 3, 'cu', edge, 1, None))
        items.append((3 if quick else 2, 2, 'nu', edge, 1, None))
        if not quick:
            items.append((3, 5, 'cu', edge, 2, None))
            items.append((1, 3, 'nu', edge, 2, None))
            items.append((3, 3, 'nu', edge, 1, None))
            items.append((4, 2, 'nu', edge, 1, None))
            items.append((5, 2, 'nu', edge, 1, None))
            items.append((2, 4, 'nu', edge, 2, None))
            items.append((3, 4, 'nu', edge, 2, None, True))
            items.append((1, 2, 'nu', edge, 3, None))
            items.append((3, 8, 'cu', edge, 1, None, True))
            items.append((3, 1, 'cu', edge, 2, None))
    for edge in EDGES:
        items.append((3, 3 if quick else 4, 'nueq', edge, 1, None))          # cubic, equally spaced, clamped, not flagged uniform
    items.append((3, 3, 'cu', 'periodic', 2, None))          # shifts of up to two domain widths of either sign
    items.append((3, 3, 'cu', 'fEq', 1, None, True))         # history: the object has already advanced another line
    items.append((2, 2, 'nu', 'null', 1, None, True))
    items.append((3, 3, 'cu', 'fEq', 1, CANARIES[0]))
    items.append((3, 3, 'cu', 'null', 1, CANARIES[1]))
    caught = {}
    for r in H.pmap(work, items, run.args.jobs):
        if r.get('canary'):
            run.add_stats(r.get('stats', {}))
            caught[r['canary']] = bool(r['violations'])
            continue
        run.merge(r)
    for cn in CANARIES:
        hit = caught.get(cn[0], False)
        run.canaries.append(dict(name=cn[0], detected=hit))
        if not hit:
            run.canary_miss(cn[0], caught)
    numenv.enable(extra_modules=[(adv, None), (acc, None), (m['init_funcs'], None)])
    run.stubs = sorted(set(numenv.STUBS)) + ['exp/tanh/sqrt uninterpreted (equilibrium is an arbitrary function of (r, v))']
    numenv.disable()
    run.bounds = dict(shift='|c*dt| <= 1 x (vMax-vMin) (thorough up to 3 x)', spaces='uniform cubic 3 cells, general degree 3/2 cells (thorough: uniform cubic 1, 3, 5, 8 cells, general degrees 1-5 with 2-4 cells, with and without an earlier step on the same object)', modes=EDGES)
    run.outside = ['rounding (feet within rounding distance of the boundary)', 'grid-level use of the gradient table: C05', 'larger v grids']
    run.assumptions = ['exact reals for doubles', 'solver contracts of C08']
    run.finish(
        explanation='All nodal values and the shift symbolic; every path = interval of shifts; z3 decides per node and per data coefficient '
                    'that the new value is the oracle interpolant at the foot (polynomial identity in the shift) or the stated boundary value.',
        rule='case = (v spline space, boundary mode) x feasible path (interval of the shift)')


if __name__ == '__main__':
    main()
