"""C14 -- elliptic solver returns the per-mode Galerkin solution of the radial equation (partial).

The real DiffEqSolver.__init__ (Gauss-Legendre assembly incl. the integration by parts of the second-derivative term,
band storage, boundary slices) and solveEquation/_solveMode run in exact arithmetic on real Grid objects (modes
distributed over a simulated process grid), with the coefficient functions B, C, D, E uninterpreted functions of r, a
constant A, a fully symbolic right-hand side, scipy.sparse replaced by a small dense stand-in and spsolve by its
contract (the matrix and right-hand side it is given are captured; the solution is a vector of fresh reals).
z3 decides, for every mode and axial position:
  * the matrix handed to the solve equals the dense Galerkin matrix of
        int [ -A phi'(psi r)' + B phi' psi r + C phi psi r - m^2 D phi psi r ]      (row = test function, column = trial)
    restricted to the unknowns of that mode's boundary conditions (same quadrature nodes/weights),
  * the right-hand side equals  int E rho_h psi r  for the interpolant rho_h of the data,
  * the values written to phi are the spline with the solved coefficients at the unknowns and 0 at Dirichlet ends,
  * pure-Neumann modes with a vanishing C are refused.
Consequences (linearity in rho, independence of modes, zero at Dirichlet boundaries) follow from these identities.
"""
import itertools
import json
import os
import sys
import time
import warnings
from fractions import Fraction as Fr

import numpy as np
import z3

from lib import symx, numenv, simmpi, dist
from lib import harness as H
from lib import splineoracle as SO
from lib.symx import K, SReal, zt, toreal
from checks.c07 import breaks_family, apply_canary, undo_canary

PID = 'C14'


def radial_breaks(rpath, ncells):
    """'cu': uniform breaks, uniform-cubic flag; 'nu': general spline path on uniform breaks; 'ng': general path on graded breaks"""
    if rpath == 'ng':
        return [Fr(1) + b for b in breaks_family('graded', ncells)]
    return dist.uniform_breaks(1, 3, ncells)


class Mat:
    """dense object-dtype stand-in for the scipy.sparse matrices of the solver"""

    def __init__(self, M):
        self.M = np.array(M, dtype=object)
        self.shape = self.M.shape

    def __getitem__(self, k):
        r = self.M[k]
        return Mat(r) if isinstance(r, np.ndarray) and r.ndim == 2 else r

    def __add__(self, o): return Mat(self.M + o.M)
    def __sub__(self, o): return Mat(self.M - o.M)
    def __rmul__(self, s): return Mat(self.M * s)
    def __mul__(self, s): return Mat(self.M * s)
    def dot(self, v): return self.M.dot(v)


class SparseStub:
    csc_matrix = Mat

    @staticmethod
    def diags(diagonals, offsets, shape, format=None):
        M = np.empty(shape, dtype=object)
        M[...] = 0
        for d, off in zip(diagonals, offsets):
            for k, v in enumerate(d):
                i = k if off >= 0 else k - off
                j = k + off if off >= 0 else k
                M[i, j] = v
        return Mat(M)


def work(item):
    rdeg, ncells, rpath, qdeg, ntheta, nprocs, lN, uN, a_const, c_zero, canary = item[:11]
    func_rhs = len(item) > 11 and item[11]          # right-hand side given as a function of r (solveEquationForFunction)
    d_zero = len(item) > 12 and item[12]            # D identically zero (no theta term: every doubly-Neumann mode is singular when C = 0)
    res = H.worker_result()
    m = dist.mods()
    ps = H.repo_import('pygyro.poisson.poisson_solver')
    t0 = time.time()
    if canary:
        apply_canary(dict(m, ps=ps), canary)
    SOLVES = []

    def spsolve(A, b):
        ctx = symx.Ctx.cur
        sol = np.empty(len(b), dtype=object)
        for i in range(len(b)):
            sol[i] = SReal(z3.Real(ctx.fresh_name('sol')))
        SOLVES.append((A, np.array(b, dtype=object), sol))
        return sol
    numenv.enable(extra_modules=[(ps, dict(sparse=SparseStub, spsolve=spsolve))])
    symx.set_bv(None)
    breaks = radial_breaks(rpath, ncells)
    nz = 2
    nranks = int(np.prod(nprocs))
    st = {}
    B = lambda r: symx.uf('B', K(r))
    C = (lambda r: 0) if c_zero else (lambda r: symx.uf('C', K(r)))
    D = (lambda r: 0) if d_zero else (lambda r: symx.uf('D', K(r)))
    E = lambda r: symx.uf('E', K(r))
    A = lambda r: K(a_const)

    def body(ctx):
        del SOLVES[:]
        rb = dist.make_basis(rdeg, False, breaks, uniform=(rpath == 'cu'))
        rpts = list(rb.greville)
        nr = len(rpts)
        eta = [np.array(rpts, dtype=object), numenv.karr([Fr(i, ntheta) for i in range(ntheta)]), numenv.karr([Fr(i) for i in range(nz)])]
        RHO = dist.symbolic_field('rho', (nr, ntheta, nz))
        st.update(RHO=RHO, rpts=rpts, nr=nr)

        def rankfn(comm):
            with warnings.catch_warnings():
                warnings.simplefilter('ignore')
                h = m['layout'].getLayoutHandler(comm, {'mode_solve': [1, 2, 0]}, list(nprocs), eta)
            rho = m['grid'].Grid(eta, [rb, None, None], h, 'mode_solve', comm=comm, dtype=object)
            phi = m['grid'].Grid(eta, [rb, None, None], h, 'mode_solve', comm=comm, dtype=object)
            dist.fill_grid(rho, RHO)
            solver = ps.DiffEqSolver(qdeg, rb, nr, ntheta, lNeumannIdx=list(lN), uNeumannIdx=list(uN),
                                     ddrFactor=A, drFactor=B, rFactor=C, ddThetaFactor=D, rhoFactor=E)
            n0 = len(SOLVES)
            if func_rhs:
                def rho_fn(rr):
                    out = np.empty(len(rr), dtype=object)
                    for k_, x_ in enumerate(rr):
                        out[k_] = symx.uf('RHOF', K(x_))
                    return out
                solver.solveEquationForFunction(phi, rho_fn)
            else:
                solver.solveEquation(phi, rho)
            L = h.getLayout('mode_solve')
            return L, np.array(phi.getAllData(), dtype=object), SOLVES[n0:], solver
        return simmpi.World(nranks).run(rankfn)

    expect_refusal = bool(set(lN) & set(uN)) and c_zero
    for ctx, (kind, val) in symx.explore(body, timeout_ms=60000, index_cap=32, maxpaths=400):
        if kind == 'abort':
            if val.inconclusive:
                res['inconclusive'].append('abort %s %r' % (val.why, item[:9]))
            continue
        res['obligations'] += 1
        if kind == 'exc':
            if isinstance(val, ValueError) and 'poorly defined' in str(val):
                # legitimate exactly when some mode is Neumann at both ends and C vanishes at every quadrature node
                if set(lN) & set(uN):
                    res['discharged'] += 1
                    res['nontrivial'].append('refused|%r' % (item[:9],))
                else:
                    res['violations'].append(('fem:refusal', 'well-posed problem refused: %s' % val, dict(kind='fem', item=[str(x) for x in item[:10]])))
                continue
            prob = float_replay(m, ps, item)
            if prob:
                res['violations'].append(('fem:exception', '%s: %s / %s' % (type(val).__name__, str(val)[:120], prob), dict(kind='fem', item=[str(x) for x in item[:10]])))
            else:
                res['inconclusive'].append('exception on the model only: %s %s %r' % (type(val).__name__, str(val)[:200], item[:9]))
            continue
        if expect_refusal:
            prob = float_replay(m, ps, item)
            res['violations'].append(('fem:refusal', 'pure-Neumann problem with vanishing C accepted (modes %s)' % sorted(set(lN) & set(uN)),
                                      dict(kind='fem', item=[str(x) for x in item[:10]], concrete=prob)))
            continue
        RHO, rpts, nr = st['RHO'], [symx.fval(p) for p in st['rpts']], st['nr']
        T = SO.math_knots(breaks, rdeg, False)
        nb = ncells + rdeg
        # quadrature exactly as numpy supplies it (doubles taken exactly), on every cell
        from numpy.polynomial.legendre import leggauss
        pts, wts = leggauss(qdeg // 2 + 1)
        quad = []
        for c in range(ncells):
            lo, hi = breaks[c], breaks[c + 1]
            half = (hi - lo) / 2                        # Gauss-Legendre on the cell [lo, hi]
            mid = (lo + hi) / 2
            for p, w in zip(pts, wts):
                quad.append((mid + symx.rationalise(float(p)) * half, symx.rationalise(float(w)) * half, c))     # same float->rational reading as the proxies apply
        # basis values / derivatives at the quadrature nodes
        Bv = []
        for (x, w, c) in quad:
            cell = rdeg + c
            Bv.append((SO.cell_basis(T, rdeg, cell, x, 0), SO.cell_basis(T, rdeg, cell, x, 1)))

        def entry(a, b, msq):
            acc = K(0)
            for (x, w, c), (v, dv) in zip(quad, Bv):
                va, vb, da, db = v[a], v[b], dv[a], dv[b]
                if (isinstance(va, int) and va == 0 and isinstance(da, int) and da == 0) or (isinstance(vb, int) and vb == 0 and isinstance(db, int) and db == 0):
                    continue
                t = -K(a_const) * (K(db * da * x) + K(db * va)) + B(x) * K(db * va * x) + (C(x) * K(vb * va * x) if not c_zero else 0) \
                    - (K(msq) * D(x) * K(vb * va * x) if not d_zero else 0)
                acc = acc + t * K(w)
            return acc

        def mass(a, b):
            acc = K(0)
            for (x, w, c), (v, dv) in zip(quad, Bv):
                va, vb = v[a], v[b]
                if (isinstance(va, int) and va == 0) or (isinstance(vb, int) and vb == 0):
                    continue
                acc = acc + E(x) * K(vb * va * x * w)
            return acc
        mvals = list(np.fft.fftfreq(ntheta, 1 / ntheta))
        bad, where = [], []
        for rk, (L, phi, solves, solver) in enumerate(val):
            k = 0
            for il in range(L.shape[0]):
                I = il + int(L.starts[0])
                mm = mvals[I]
                unknowns = [j for j in range(nb) if (1 <= j <= nb - 2) or (j == 0 and mm in lN) or (j == nb - 1 and mm in uN)]
                for jl in range(L.shape[1]):
                    jz = jl + int(L.starts[1])
                    if k >= len(solves):
                        bad.append(z3.BoolVal(True))
                        where.append(('missing solve', rk, I, jz))
                        continue
                    Am, bm, sol = solves[k]
                    k += 1
                    if Am.shape != (len(unknowns), len(unknowns)) or len(bm) != len(unknowns):
                        bad.append(z3.BoolVal(True))
                        where.append(('system of wrong size %s for %d unknowns' % (Am.shape, len(unknowns)), rk, I, jz))
                        continue
                    coef = None if func_rhs else SO.interpolant_coeffs(T, rdeg, False, ncells, rpts, list(RHO[:, I, jz]))
                    for ia, a in enumerate(unknowns):
                        for ib, b in enumerate(unknowns):
                            bad.append(toreal(zt(K(Am.M[ia, ib]))) != toreal(zt(entry(a, b, Fr(mm * mm)))))
                            where.append(('stiffness entry (%d,%d)' % (a, b), rk, I, jz))
                        rhs = K(0)
                        if func_rhs:
                            # weak form of E*rho against the test function: sum_q w_q E(x_q) rho(x_q) B_a(x_q) x_q
                            for (x, w, c), (v, dv) in zip(quad, Bv):
                                va = v[a]
                                if isinstance(va, int) and va == 0:
                                    continue
                                rhs = rhs + E(x) * symx.uf('RHOF', K(x)) * K(va * x * w)
                        for b in (range(nb) if not func_rhs else ()):
                            rhs = rhs + mass(a, b) * coef[b]
                        bad.append(toreal(zt(K(bm[ia]))) != toreal(zt(rhs)))
                        where.append(('right-hand side row %d' % a, rk, I, jz))
                    # values written to phi: spline with the solved coefficients
                    full = [K(0)] * nb
                    for ia, a in enumerate(unknowns):
                        full[a] = sol[ia]
                    for ir, x in enumerate(rpts):
                        cell = SO.find_cell_fraction(T, rdeg, x)
                        Bx = SO.cell_basis(T, rdeg, cell, x, 0)
                        v = K(0)
                        for c_, b_ in zip(full, Bx):
                            if not (isinstance(b_, int) and b_ == 0):
                                v = v + c_ * b_
                        bad.append(toreal(zt(K(phi[il, jl, ir]))) != toreal(zt(v)))
                        where.append(('phi value at radial node %d' % ir, rk, I, jz))
            if k != len(solves):
                bad.append(z3.BoolVal(True))
                where.append(('%d extra solves' % (len(solves) - k), rk, -1, -1))
        cache = {}
        r_ = ctx.check(z3.Or([symx.abstract_nonlinear(z3.simplify(b), cache) for b in bad]))
        if r_ != 'unsat':
            r_ = ctx.check(z3.Or(bad))
        if r_ == 'unsat':
            res['discharged'] += 1
            res['nontrivial'].append('fem|%r|%d' % (item[:10], len(ctx.decisions)))
            if len(res['samples']) < 1:
                res['samples'].append(dict(config=[str(x) for x in item[:10]], facts=len(bad)))
        elif r_ == 'sat':
            mdl = ctx.model()
            hits = [w for w, b in zip(where, bad) if z3.is_true(mdl.eval(b, model_completion=True))][:4]
            if os.environ.get('C14_DEBUG'):
                for w, b in zip(where, bad):
                    if z3.is_true(mdl.eval(b, model_completion=True)):
                        print('DEBUG', w, str(z3.simplify(b))[:1500])
                        break
            prob = float_replay(m, ps, item)
            rep = dict(kind='fem', item=[str(x) for x in item[:10]], facts=[str(h) for h in hits], concrete=prob, canary=bool(canary))
            if prob:
                key = 'fem:nonuniform_radial_breaks' if rpath == 'ng' else 'fem:%s' % hits[0][0].split(' ')[0]
                res['violations'].append((key, '%s; %s' % (hits[0], prob), rep))
            else:
                res['inconclusive'].append('model does not reproduce in floats: %r' % rep)
        else:
            res['inconclusive'].append('unknown FEM query %r' % (item[:9],))
    numenv.disable()
    if canary:
        undo_canary(None)
    res['stats'] = symx.GLOBAL.as_dict()
    symx.GLOBAL.__init__()
    res['wall'] = round(time.time() - t0, 2)
    res['canary'] = canary[0] if canary else None
    return res


def float_replay(m, ps, item):
    """real float solver (real scipy.sparse / spsolve) vs. an independent dense float Galerkin solve with concrete smooth coefficients"""
    rdeg, ncells, rpath, qdeg, ntheta, nprocs, lN, uN, a_const, c_zero = item[:10]
    func_rhs = len(item) > 11 and item[11]
    d_zero = len(item) > 12 and item[12]
    numenv.disable()
    try:
        breaks = radial_breaks(rpath, ncells)
        fb = np.array([float(b) for b in breaks])
        kn = m['spl'].make_knots(fb, rdeg, False)
        rb = m['spl'].BSplines(kn, rdeg, False, rpath == 'cu')
        rpts = np.array(rb.greville, dtype=float)
        nr, nz = len(rpts), 2
        eta = [rpts, np.arange(ntheta) / ntheta, np.arange(nz, dtype=float)]
        Bf = lambda r: 0.3 + 0.1 * r
        Cf = (lambda r: 0.0) if c_zero else (lambda r: 0.7 - 0.05 * r * r)
        Df = (lambda r: 0.0) if d_zero else (lambda r: -1.0 - 0.2 * r)
        Ef = lambda r: 1.0 + 0.5 * r
        Af = lambda r: float(a_const)
        rng = np.random.RandomState(4)
        # genuinely complex right-hand side; mode 0 purely real, mode 1 purely imaginary (what the FFT of cos / sin content gives)
        RHO = (rng.rand(nr, ntheta, nz) - 0.5) + 1j * (rng.rand(nr, ntheta, nz) - 0.5)
        RHO[:, 0, :] = RHO[:, 0, :].real
        if ntheta > 1:
            RHO[:, 1, :] = 1j * RHO[:, 1, :].imag
        Tq = SO.math_knots(breaks, rdeg, False)
        nb = ncells + rdeg
        from numpy.polynomial.legendre import leggauss
        pts, wts = leggauss(qdeg // 2 + 1)
        X = np.concatenate([(fb[c] + fb[c + 1]) / 2 + pts * (fb[c + 1] - fb[c]) / 2 for c in range(ncells)])
        W = np.concatenate([wts * (fb[c + 1] - fb[c]) / 2 for c in range(ncells)])
        cellof = np.concatenate([[c] * len(pts) for c in range(ncells)])

        def fbasis(x, cell, der):
            vals = SO.cell_basis(Tq, rdeg, rdeg + cell, Fr(float(x)), der)
            return np.array([float(v) for v in vals])
        V = np.array([fbasis(x, c, 0) for x, c in zip(X, cellof)]).T
        dV = np.array([fbasis(x, c, 1) for x, c in zip(X, cellof)]).T
        mvals = np.fft.fftfreq(ntheta, 1 / ntheta)

        def rankfn(comm):
            with warnings.catch_warnings():
                warnings.simplefilter('ignore')
                h = m['layout'].getLayoutHandler(comm, {'mode_solve': [1, 2, 0]}, list(nprocs), eta)
            rho = m['grid'].Grid(eta, [rb, None, None], h, 'mode_solve', comm=comm, dtype=np.complex128)
            phi = m['grid'].Grid(eta, [rb, None, None], h, 'mode_solve', comm=comm, dtype=np.complex128)
            dist.fill_grid(rho, RHO)
            solver = ps.DiffEqSolver(qdeg, rb, nr, ntheta, lNeumannIdx=list(lN), uNeumannIdx=list(uN),
                                     ddrFactor=Af, drFactor=Bf, rFactor=Cf, ddThetaFactor=Df, rhoFactor=Ef)
            rho_f = lambda r: 1.0 + 0.3 * r * r
            if func_rhs:
                solver.solveEquationForFunction(phi, rho_f)
            else:
                solver.solveEquation(phi, rho)
            L = h.getLayout('mode_solve')
            worst = 0.0
            colloc = np.array([fbasis(x, SO.find_cell_fraction(Tq, rdeg, Fr(float(x))) - rdeg, 0) for x in rpts])
            for il in range(L.shape[0]):
                I = il + int(L.starts[0])
                mm = mvals[I]
                unk = [j for j in range(nb) if (1 <= j <= nb - 2) or (j == 0 and mm in lN) or (j == nb - 1 and mm in uN)]
                Kmat = np.zeros((nb, nb))
                Mmat = np.zeros((nb, nb))
                for a in range(nb):
                    for b in range(nb):
                        Kmat[a, b] = np.sum(W * (-Af(0) * (dV[b] * dV[a] * X + dV[b] * V[a]) + Bf(X) * dV[b] * V[a] * X + np.vectorize(Cf)(X) * V[b] * V[a] * X
                                                 - mm * mm * Df(X) * V[b] * V[a] * X))
                        Mmat[a, b] = np.sum(W * Ef(X) * V[b] * V[a] * X)
                for jl in range(L.shape[1]):
                    jz = jl + int(L.starts[1])
                    if func_rhs:
                        load = np.array([np.sum(W * Ef(X) * rho_f(X) * V[a] * X) for a in range(nb)])
                        sol = np.linalg.solve(Kmat[np.ix_(unk, unk)], load[unk])
                    else:
                        c = np.linalg.solve(colloc, RHO[:, I, jz])
                        sol = np.linalg.solve(Kmat[np.ix_(unk, unk)], (Mmat @ c)[unk])
                    full = np.zeros(nb, dtype=complex)
                    full[unk] = sol
                    exp = colloc @ full
                    worst = max(worst, float(np.max(np.abs(phi.getAllData()[il, jl, :] - exp))))
            return worst
        errs = simmpi.World(int(np.prod(nprocs))).run(rankfn)
    except ValueError as e:
        if 'poorly defined' in str(e):
            return None if (set(lN) & set(uN)) and c_zero else 'well-posed problem refused: %s' % e
        return 'exception ValueError: %s' % e
    except Exception as e:
        return 'exception %s: %s' % (type(e).__name__, e)
    finally:
        numenv.enable()
    if (set(lN) & set(uN)) and c_zero:
        return 'pure-Neumann problem with vanishing C accepted'
    if max(errs) > 1e-7:
        return 'solution differs from the dense Galerkin solve by %.3g' % max(errs)
    return None


CANARIES = [
    ('integration by parts: second term uses the test-function derivative', 'ps', [(
        "                dPhidPsiCoeffs[j][i] = dPhidPsi + \\\n                    np.sum(np.tile(self._weights, end-start) * multFactor *\n                           -ddrFactor(evalPts) * self._rspline[s_j].eval(evalPts, 1) * spline.eval(evalPts))",
        "                dPhidPsiCoeffs[j][i] = dPhidPsi + \\\n                    np.sum(np.tile(self._weights, end-start) * multFactor *\n                           -ddrFactor(evalPts) * self._rspline[s_j].eval(evalPts) * spline.eval(evalPts, 1))")]),
    ('upper Neumann modes lose their last unknown', 'ps', [(
        "                                   self._rspline.nbasis - (0 if i in uNeumannIdx else 1))",
        "                                   self._rspline.nbasis - (0 if (i in uNeumannIdx and i >= 0) else 1))")]),
]


def main():
    run = H.Run(PID, 'proof')
    m = dist.mods()
    ps = H.repo_import('pygyro.poisson.poisson_solver')
    if run.args.replay:
        print(json.dumps(json.load(open(run.args.replay))['replay'], indent=1))
        sys.exit(0)
    DS = ps.DiffEqSolver
    run.functions = H.src_info(DS.__init__, DS.solveEquation, DS._solveMode, DS.funcIsNull)
    quick = run.tier == 'quick'
    items = []
    # (rdeg, ncells, path, quadrature degree, ntheta, nprocs, lNeumann modes, uNeumann modes, A, C==0?)
    items.append((1, 2, 'nu', 2, 4, (1, 1), (), (), Fr(-1), False, None))
    items.append((2, 3, 'nu', 4, 4, (2, 1), (0,), (), Fr(-1), False, None))
    items.append((3, 2, 'cu', 6, 4, (2, 1), (0, 1), (-1,), Fr(2), False, None))
    items.append((2, 3, 'ng', 4, 4, (1, 1), (), (), Fr(-1), False, None))          # non-uniform radial breaks
    items.append((2, 2, 'nu', 4, 4, (1, 1), (0,), (0,), Fr(-1), True, None))       # ill-posed: must be refused
    items.append((2, 2, 'nu', 4, 4, (1, 1), (0,), (0,), Fr(-1), False, None))      # same BCs with C != 0: accepted (or refused only if C vanishes at all nodes)
    if not quick:
        items.append((3, 4, 'nu', 6, 6, (3, 1), (0, 1, -1), (2,), Fr(-1), False, None))
        items.append((1, 4, 'nu', 2, 4, (2, 2), (), (1,), Fr(1, 2), False, None))
        items.append((3, 3, 'cu', 7, 4, (1, 2), (), (), Fr(-1), True, None))
        items.append((2, 4, 'nu', 5, 4, (2, 1), (2, -2), (1,), Fr(-1), False, None))
        items.append((1, 2, 'nu', 3, 4, (2, 1), (1, -1), (1,), Fr(-1), False, None))      # pure Neumann on mode 1 with C != 0 (64 funcIsNull paths)
        # more degrees, exactness requests, process grids, boundary sets; function right-hand sides on several grids
        items.append((4, 3, 'nu', 8, 4, (2, 2), (0,), (1,), Fr(-1), False, None))
        items.append((3, 4, 'ng', 6, 6, (3, 2), (0, 1), (), Fr(2), False, None))
        items.append((2, 4, 'ng', 5, 4, (1, 2), (), (0, -1), Fr(1, 2), False, None, True))
        items.append((1, 5, 'nu', 3, 6, (3, 1), (2,), (), Fr(-1), False, None, True))
        items.append((3, 3, 'cu', 3, 4, (2, 2), (1,), (), Fr(-1), False, None))
        items.append((2, 3, 'nu', 4, 4, (2, 1), (0,), (0,), Fr(-1), True, None))               # ill-posed on two processes: refused
        items.append((4, 2, 'nu', 3, 4, (1, 1), (0,), (), Fr(-1), False, None))                # exactness below the degree, degree 4
        items.append((3, 3, 'ng', 6, 4, (1, 2), (-1,), (1,), Fr(-1), False, None, True))
    items.append((2, 3, 'nu', 4, 4, (1, 1), (0,), (), Fr(-1), False, None, True))          # right-hand side given as a function
    items.append((2, 2, 'nu', 4, 4, (1, 1), (1,), (1,), Fr(-1), True, None, False, True))   # ill-posed on a mode other than 0 (C = D = 0): must be refused
    items.append((1, 3, 'nu', 7, 4, (1, 1), (0,), (), Fr(-1), False, None))                 # requested exactness well above 2p+1
    items.append((3, 2, 'nu', 2, 4, (1, 1), (0,), (), Fr(-1), False, None))                 # requested exactness below the spline degree
    items.append((2, 3, 'nu', 1, 4, (1, 1), (), (), Fr(-1), False, None))
    items.append((2, 3, 'nu', 4, 4, (1, 1), (0,), (), Fr(-1), False, CANARIES[0]))
    items.append((2, 3, 'nu', 4, 4, (2, 1), (), (-1, 1), Fr(-1), False, CANARIES[1]))
    caught = {}
    for r in H.pmap(work, items, run.args.jobs):
        if r.get('canary'):
            run.add_stats(r.get('stats', {}))
            caught[r['canary']] = bool(r['violations'])
            continue
        run.merge(r)
    for cn in CANARIES:
        hit = caught.get(cn[0], False)
        run.canaries.append(dict(name=cn[0], detected=hit))
        if not hit:
            run.canary_miss(cn[0], caught)
    numenv.enable(extra_modules=[(ps, None)])
    run.stubs = sorted(set(numenv.STUBS)) + ['scipy.sparse (diags, slicing, +, -, scalar *, dot): dense object stand-in', 'spsolve: contract (arguments captured, solution = fresh reals)',
                                             'B, C, D, E: uninterpreted functions of r; leggauss nodes/weights taken as the exact values of the doubles numpy returns']
    numenv.disable()
    run.bounds = dict(degrees='1-3', cells='2-4', quadrature_degree='2-7', ntheta='4-6', process_grids='(1,1),(2,1) (thorough also (3,1),(2,2),(1,2))',
                      boundary_conditions='Dirichlet both ends; lower/upper Neumann on selected modes; pure Neumann with C==0 (refusal)', A='constants -1, 2, 1/2')
    run.outside = ['"exact for manufactured polynomial solutions" holds only up to the rounding of the Gauss nodes/weights numpy supplies: checked as "code and oracle use the same quadrature"',
                   'solveEquationForFunction / _solveModeFunc', 'degrees 4-5, larger spaces', 'the sparse solve itself (contract)', 'FFT stages (C15 not applicable)']
    run.assumptions = ['exact reals for doubles', 'solver contracts of C08 for the interpolation of rho', 'scipy.sparse semantics of the dense stand-in']
    run.finish(
        explanation='Assembly and per-mode solve on symbolic rho with uninterpreted coefficient functions; z3 decides entrywise equality of the '
                    'matrix and right-hand side given to the solver with an independent dense Galerkin assembly of the weak form on the same '
                    'quadrature, the alignment of unknowns with spline coefficients per mode (global mode index on distributed modes), the '
                    'evaluation at the radial nodes, and the refusal of ill-posed pure-Neumann problems.',
        rule='case = (radial space, quadrature degree, ntheta, process grid, Neumann mode sets, A, C==0) x feasible path (funcIsNull forks)')


if __name__ == '__main__':
    main()
