"""C13 -- parallel gradient is the field-aligned finite-difference derivative.

The real ParallelGradient (constructor: finite-difference weights via numpy.linalg.solve [exact contract], b_z, table of
theta positions; parallel_gradient with its three index regimes) runs on a fully symbolic potential phi[z,theta]
(z3 Reals) with rational twist profiles (r*iota(r)/R0 in {0, 3/4, 5/12, 8/15}, so b_z is rational).  z3 decides that
every output entry equals  b_z(r)/dz * sum_s w_s S_{k+s}(theta_q + iota(r) dz s / R0)  with S_k the theta-spline of
phi[k mod nz, :] (independent oracle interpolation + Cox-de Boor evaluation) and w the first-derivative weights obtained
independently from the moment conditions  sum_s w_s s^m = [m == 1], m <= order.
"""
import json
import sys
import time
from fractions import Fraction as Fr

import numpy as np
import z3

from lib import symx, numenv, dist, simmpi
from lib import harness as H
from lib import splineoracle as SO
from lib.symx import K, SReal, zt, toreal
from checks.c07 import oracle_knots, apply_canary, undo_canary

PID = 'C13'
TWO_PI = Fr(2 * np.pi)
TWISTS = [Fr(0), Fr(3, 4), Fr(5, 12), Fr(8, 15)]
R0 = Fr(10)


def bz_of(t):
    # 1/sqrt(1+t^2): rational for the Pythagorean twists, otherwise through the same uninterpreted sqrt the code meets
    return 1 / K(1 + t * t).sqrt()


def bz_float(t):
    return 1.0 / float(1 + t * t) ** 0.5


def fd_weights(order):
    """first-derivative weights on the stencil used by the code (start = 1-(n+1)//2, n = order+1), from the moment conditions"""
    n = order + 1
    start = 1 - (n + 1) // 2
    shifts = [start + j for j in range(n)]
    A = [[Fr(s) ** i for s in shifts] for i in range(n)]
    b = [Fr(1) if i == 1 else Fr(0) for i in range(n)]
    Ainv = SO.invert(A)
    w = [sum(Ainv[i][j] * b[j] for j in range(n)) for i in range(n)]
    return shifts, w


class TwistConstants:
    def __init__(self, rvals, twists, const_iota=None):
        self.R0 = K(R0)
        self._map = {}
        for r, t in zip(rvals, twists):
            self._map[r] = t * R0 / r
        self._const = const_iota

    def iota(self, r):
        if self._const is not None:
            if isinstance(r, np.ndarray):
                out = np.empty(r.shape, dtype=object)
                out[...] = K(self._const)
                return out
            return K(self._const)
        if isinstance(r, np.ndarray):
            out = np.empty(r.shape, dtype=object)
            for i, x in enumerate(r):
                out[i] = K(self._map[symx.fval(x)])
            return out
        return K(self._map[symx.fval(r)])


# (dims_order of the 3-D (r, theta, z) grid, process counts, this rank's coordinates) of the *real* Layout handed to the
# constructor: r leading / distributed second / last, orderings that are not their own inverse included
LAYS = {0: ((0, 2, 1), (1,), (0,)), 1: ((0, 2, 1), (2,), (1,)), 2: ((2, 0, 1), (1, 2), (0, 1)), 3: ((1, 2, 0), (2, 1), (1, 0)),
        4: ((0, 1, 2), (4,), (3,)), 5: ((2, 0, 1), (2, 2), (1, 0))}
NR = 4


def real_layout(m, lay, eta):
    order_, nprocs, rank = LAYS[lay]
    L = m['layout'].Layout('pargrad', list(nprocs), list(order_), eta, list(rank))
    pos = list(order_).index(0)
    return L, int(L.starts[pos]), int(L.ends[pos])


def work(item):
    order, nz, nq, tdeg, tpath, lay, twist_mode, canary = item[:8]
    dz_item = item[8] if len(item) > 8 and item[8] is not None else Fr(3, 4)
    pre_orders = item[9] if len(item) > 9 else ()
    res = H.worker_result()
    m = dist.mods()
    adv = H.repo_import('pygyro.advection.advection')
    t0 = time.time()
    if canary:
        apply_canary(dict(m, adv=adv), canary)
    numenv.enable(extra_modules=[(adv, None)])
    symx.set_bv(None)
    nr = NR
    rvals = [Fr(1) + Fr(i, 2) for i in range(nr)]
    iota0 = Fr(3, 4) * R0 / rvals[0]
    twists = [TWISTS[(i + 1) % 4] if twist_mode == 'radial' else (Fr(0) if twist_mode == 'zero' else rvals[i] * iota0 / R0) for i in range(nr)]
    dz = dz_item
    qbreaks = [TWO_PI * Fr(i, nq) for i in range(nq + 1)]
    T = oracle_knots(qbreaks, tdeg, True, tpath)

    st = {}

    def body(ctx):
        basis = dist.make_basis(tdeg, True, qbreaks, uniform=(tpath == 'cu'))
        qpts = list(basis.greville)
        eta = [numenv.karr(rvals), np.array(qpts, dtype=object), numenv.karr([dz * k for k in range(nz)])]
        consts = TwistConstants(rvals, twists, None if twist_mode == 'radial' else (twists[0] * R0 / rvals[0] if False else None))
        if twist_mode != 'radial':
            # constant rotational transform (what Constants.iota provides): iota = t*R0/r0 for all radii -> b_z irrational in general;
            # keep b_z rational by using the same twist value r*iota/R0 at every radius through the map
            consts = TwistConstants(rvals, twists)
        L, rstart, rend = real_layout(m, lay, eta)
        # objects of other orders built first in the same process: the result must not depend on that history
        for o2 in pre_orders:
            adv.ParallelGradient(basis, eta, L, consts, o2)
        pg = adv.ParallelGradient(basis, eta, L, consts, order)
        phi = dist.symbolic_field('phi', (nz, nq))
        st.update(phi=phi, qpts=qpts, rstart=rstart)
        outs = []
        for il in range(rend - rstart):
            der = np.empty((nz, nq), dtype=object)
            pg.parallel_gradient(phi, il, der)
            outs.append(der)
        return outs

    for ctx, (kind, val) in budgeted(symx.explore(body, timeout_ms=60000, maxpaths=64)):
        if kind == 'budget':
            res['inconclusive'].append('parallel gradient: more than 64 paths (data-dependent branching on the potential) %r' % (item[:7],))
            break
        if kind != 'ok':
            if kind == 'abort' and not val.inconclusive:
                continue
            res['obligations'] += 1
            prob = float_replay(m, adv, item, rvals, twists, dz, qbreaks, T)      # decided by the float run when the symbolic run cannot finish
            if prob:
                res['violations'].append(('pargrad:exception', '%s: %s / %s' % (type(val).__name__, str(val)[:100], prob), dict(kind='pargrad', item=[str(x) for x in item[:9]], concrete=prob)))
            else:
                res['inconclusive'].append('parallel gradient: %s %r %r' % (kind, val, item[:7]))
            continue
        phi, qpts, rstart = st['phi'], [symx.fval(p) for p in st['qpts']], st['rstart']
        shifts, w = fd_weights(order)
        # moment conditions of the oracle weights = the order claim, algebraically
        for mm in range(order + 1):
            assert sum(wi * Fr(s) ** mm for wi, s in zip(w, shifts)) == (1 if mm == 1 else 0)
        coefs = [SO.interpolant_coeffs(T, tdeg, True, nq, qpts, list(phi[k, :])) for k in range(nz)]
        bad, where = [], []
        for il, der in enumerate(val):
            ig = il + rstart
            t = twists[ig]
            iota = t * R0 / rvals[ig]
            for k in range(nz):
                for q in range(nq):
                    acc = K(0)
                    for s, ws in zip(shifts, w):
                        th = (qpts[q] + iota * dz * s / R0) % TWO_PI
                        cell = SO.find_cell_fraction(T, tdeg, th)
                        B = SO.cell_basis(T, tdeg, cell, th, 0)
                        cc = coefs[(k + s) % nz]
                        v = K(0)
                        for c, b in zip(cc, B):
                            if not (isinstance(b, int) and b == 0):
                                v = v + c * b
                        acc = acc + v * ws
                    exp = acc * bz_of(t) / K(dz)
                    bad.append(toreal(zt(der[k, q])) != toreal(zt(exp)))
                    where.append((il, ig, k, q))
        res['obligations'] += 1
        r_ = ctx.check(z3.Or(bad))
        if r_ == 'unsat':
            res['discharged'] += 1
            res['nontrivial'].append('pargrad|%r' % (item[:7],))
            if len(res['samples']) < 1:
                res['samples'].append(dict(config=[str(x) for x in item[:7]], entries_checked=len(bad), weights=[str(x) for x in w]))
        elif r_ == 'sat':
            mdl = ctx.model()
            hits = [wh for wh, b in zip(where, bad) if z3.is_true(mdl.eval(b, model_completion=True))][:3]
            try:
                pv = [[float(Fr(symx.model_value(mdl, phi[k, q]))) for q in range(nq)] for k in range(nz)]
            except Exception:
                pv = None
            prob = (float_replay(m, adv, item, rvals, twists, dz, qbreaks, T, pv) if pv is not None else None) or float_replay(m, adv, item, rvals, twists, dz, qbreaks, T)
            rep = dict(kind='pargrad', item=[str(x) for x in item[:7]], where=str(hits), concrete=prob, canary=bool(canary))
            key = 'pargrad:%s' % ('radius_dependent_iota_local_index' if (twist_mode == 'radial' and st.get('rstart', 0) > 0) else 'general')
            if prob:
                res['violations'].append((key, '%s (entries local r/global r/z/theta %s)' % (prob, hits[:2]), rep))
            else:
                res['inconclusive'].append('model does not reproduce in floats: %r' % rep)
        else:
            res['inconclusive'].append('unknown parallel gradient query %r' % (item[:7],))
    numenv.disable()
    if canary:
        undo_canary(None)
    res['stats'] = symx.GLOBAL.as_dict()
    symx.GLOBAL.__init__()
    res['wall'] = round(time.time() - t0, 2)
    res['canary'] = canary[0] if canary else None
    return res


_REPLAY_N = [0]


def budgeted(gen):
    """the exploration, ended by one ('budget', ...) entry instead of an exception when it runs out of its path budget"""
    while True:
        try:
            yield next(gen)
        except StopIteration:
            return
        except RuntimeError as e:
            if 'path budget' not in str(e):
                raise
            yield None, ('budget', e)
            return



def float_replay(m, adv, item, rvals, twists, dz, qbreaks, T, phi_values=None):
    """real float code vs. the oracle formula in floats on a random potential"""
    order, nz, nq, tdeg, tpath, lay, twist_mode = item[:7]
    pre_orders = item[9] if len(item) > 9 else ()
    numenv.disable()
    if not item[7]:
        # a fresh instance of the module: nothing cached at class / module level during the symbolic run leaks into the replay
        _REPLAY_N[0] += 1
        adv = H.load_copy('pygyro.advection.advection', 'pygyro.advection._replay_%d' % _REPLAY_N[0])
    try:
        kn = m['spl'].make_knots(np.array([float(b) for b in qbreaks]), tdeg, True)
        fb = m['spl'].BSplines(kn, tdeg, True, tpath == 'cu')
        qpts = np.array(fb.greville, dtype=float)
        nr = len(rvals)
        eta = [np.array([float(r) for r in rvals]), qpts, np.array([float(dz) * k for k in range(nz)])]

        class FC:
            R0 = float(R0)

            @staticmethod
            def iota(r):
                mp = {round(float(rv), 12): float(t * R0 / rv) for rv, t in zip(rvals, twists)}
                if isinstance(r, np.ndarray):
                    return np.array([mp[round(float(x), 12)] for x in r])
                return mp[round(float(r), 12)]

        L, rstart, rend = real_layout(m, lay, eta)
        for o2 in pre_orders:
            adv.ParallelGradient(fb, eta, L, FC, o2)
        pg = adv.ParallelGradient(fb, eta, L, FC, order)
        rng = np.random.RandomState(7)
        phi = rng.rand(nz, nq) * 2 - 1
        if phi_values is not None:
            phi = np.array(phi_values, dtype=float).reshape(nz, nq)          # the solver's potential
        shifts, w = fd_weights(order)
        qf = [Fr(q).limit_denominator(10 ** 12) for q in qpts]
        coefs = [SO.interpolant_coeffs(T, tdeg, True, nq, qf, [Fr(x).limit_denominator(10 ** 12) for x in phi[k]]) for k in range(nz)]
        worst = 0.0
        for il in range(rend - rstart):
            der = np.empty((nz, nq))
            pg.parallel_gradient(phi, il, der)
            ig = il + rstart
            iota = twists[ig] * R0 / rvals[ig]
            for k in range(nz):
                for q in range(nq):
                    acc = Fr(0)
                    for s, ws in zip(shifts, w):
                        th = (qf[q] + iota * dz * s / R0) % TWO_PI
                        acc += ws * SO.eval_fraction(T, tdeg, coefs[(k + s) % nz], th, 0)
                    exp = float(acc / dz) * bz_float(twists[ig])
                    worst = max(worst, abs(der[k, q] - exp))
    except Exception as e:
        return 'exception %s: %s' % (type(e).__name__, e)
    finally:
        numenv.enable()
    if worst > 1e-8:
        return 'parallel gradient differs from the field-aligned finite-difference formula by %.3g' % worst
    return None


CANARIES = [
    ('scatter index wraps with the wrong sign in the last regime', 'adv', [(
        "        for i in range(self._nz-self._bkwdSteps, self._nz):\n            self._interpolator.compute_interpolant(\n                phi_r[i, :], self._thetaSpline)\n            for j, (s, c) in enumerate(zip(self._shifts, self._coeffs)):\n                self._thetaSpline.eval_vector(thetaVals[i, j, :], tmp)\n                der[(i-s) % self._nz, :] += c*tmp",
        "        for i in range(self._nz-self._bkwdSteps, self._nz):\n            self._interpolator.compute_interpolant(\n                phi_r[i, :], self._thetaSpline)\n            for j, (s, c) in enumerate(zip(self._shifts, self._coeffs)):\n                self._thetaSpline.eval_vector(thetaVals[i, j, :], tmp)\n                der[(i+s) % self._nz, :] += c*tmp")]),
    ('stencil one point short', 'adv', [("        self.getCoeffsFirstDeriv(order+1)", "        self.getCoeffsFirstDeriv(order+1 if order != 4 else order-1)")]),
]


def main():
    run = H.Run(PID, 'proof')
    m = dist.mods()
    adv = H.repo_import('pygyro.advection.advection')
    if run.args.replay:
        print(json.dumps(json.load(open(run.args.replay))['replay'], indent=1))
        sys.exit(0)
    PG = adv.ParallelGradient
    run.functions = H.src_info(PG.__init__, PG.getCoeffsFirstDeriv, PG._getThetaVals, PG.parallel_gradient, adv.fieldline)
    quick = run.tier == 'quick'
    items = []
    orders = [2, 4, 6] if quick else [2, 3, 4, 5, 6]
    for order in orders:
        for twist in ('zero', 'const', 'radial'):
            for lay in ((0, 1, 2) if twist == 'radial' else (0,)):
                items.append((order, order + 2 if quick else order + 3, 4, 3, 'cu', lay, twist, None))
    items.append((4, 7, 4, 2, 'nu', 1, 'const', None))
    items.append((2, 4, 4, 3, 'cu', 3, 'radial', None))
    items.append((2, 4, 4, 3, 'cu', 4, 'radial', None))
    items.append((4, 6, 4, 3, 'cu', 5, 'radial', None))
    # field-line shifts of several poloidal turns (iota*dz*k/R0 > 2 pi): coarse z grid, strong twist
    items.append((6, 8, 4, 3, 'cu', 0, 'radial', None, Fr(12)))
    items.append((4, 7, 5, 3, 'nu', 1, 'radial', None, Fr(-30)))
    # history independence: objects of neighbouring orders built first in the same process
    for order, pre in ((5, (4,)), (4, (5,)), (3, (2,)), (2, (3, 6)), (6, (5, 2))):
        items.append((order, 8, 4, 3, 'cu', 1, 'radial', None, None, pre))
    if not quick:
        items.append((6, 9, 6, 3, 'nu', 0, 'radial', None))
        items.append((5, 8, 5, 1, 'nu', 2, 'const', None))
        for order in (2, 3, 4, 5, 6):
            items.append((order, 8, 4, 3, 'cu', 2, 'radial', None, None, tuple(o for o in (2, 3, 4, 5, 6) if o != order)))
    if not quick:
        # every order on z grids from the smallest admissible to 10 points, theta spaces of degree 1-5, every layout variant
        for order in (2, 3, 4, 5, 6):
            for nz_, nq_, qd_, path_ in [(order + 2, 5, 2, 'nu'), (9, 4, 3, 'cu'), (order + 4, 7, 4, 'nu'), (8, 5, 5, 'nu'), (10, 6, 1, 'nu')]:
                for lay in range(6):
                    items.append((order, nz_, nq_, qd_, path_, lay, 'radial', None))
            items.append((order, 9, 5, 3, 'nu', 1, 'radial', None, Fr(-17, 2) * order))
    items.append((4, 6, 4, 3, 'cu', 0, 'const', CANARIES[0]))
    items.append((4, 6, 4, 3, 'cu', 0, 'const', CANARIES[1]))
    caught = {}
    for r in H.pmap(work, items, run.args.jobs):
        if r.get('canary'):
            run.add_stats(r.get('stats', {}))
            caught[r['canary']] = bool(r['violations'])
            continue
        run.merge(r)
    for cn in CANARIES:
        hit = caught.get(cn[0], False)
        run.canaries.append(dict(name=cn[0], detected=hit))
        if not hit:
            run.canary_miss(cn[0], caught)
    numenv.enable(extra_modules=[(adv, None)])
    run.stubs = sorted(set(numenv.STUBS)) + ['numpy.linalg.solve: exact contract A x = b in Q']
    numenv.disable()
    run.bounds = dict(orders=orders, nz='order+2 (thorough order+3, 8, 9)', ntheta='4-6', twist='r*iota/R0 in {0,3/4,5/12,8/15} (constant or radius dependent)',
                      radial_offsets='real Layout objects: r leading / second / last in the ordering (orderings [0,2,1],[2,0,1],[1,2,0],[0,1,2]), local block starting at global radius index 0, 2, 3', history='objects of other orders constructed first in the same process')
    run.outside = ['convergence with the stated order as an asymptotic statement (the algebraic moment conditions of the weights are checked instead)',
                   'irrational b_z', 'rounding']
    run.assumptions = ['exact reals for doubles', 'solver contracts (C08) and exact numpy.linalg.solve', 'theta grid built from the double 2*pi']
    run.finish(
        explanation='Potential fully symbolic; real constructor and parallel_gradient; z3 decides equality of every output entry with the '
                    'stated formula (independent weights from the moment conditions, independent theta-spline interpolation/evaluation, '
                    'global radius of the local slice). Linearity, annihilation of constants and field-aligned functions and z-shift '
                    'commutation are consequences of that identity and the moment conditions.',
        rule='case = (order, nz, ntheta, theta spline, radial offset of the local block, twist profile)')


if __name__ == '__main__':
    main()
