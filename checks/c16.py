"""C16 -- density is the exact velocity integral of the interpolated distribution.

Real DensityFinder (constructor: quadrature weights + equilibrium table; getPerturbedRho / getRho) and the real
poisson_tools kernels run on real Grid / LayoutHandler objects over numpy object arrays of exact proxies, on every
rank of a simulated process grid.  The whole distribution function is symbolic (one z3 Real per global grid point),
exp/tanh/sqrt are uninterpreted.  z3 decides, for every rank and local position, that
   rho[i,j,k] == sum_l W_l (f[global(i,j,k), l] - feq(r_global(i), v_l))
with W the exact weights obtained independently (oracle collocation + oracle basis integrals, all in Q).
"""
import itertools
import json
import sys
import time
from fractions import Fraction as Fr

import numpy as np
import z3

from lib import symx, numenv, simmpi, dist
from lib import harness as H
from lib import splineoracle as SO
from lib.symx import K, SReal, zt, toreal
from checks.c07 import oracle_knots, apply_canary, undo_canary

PID = 'C16'


def oracle_weights(T, degree, periodic, ncells, pts, a, b):
    """exact quadrature weights of 'integrate the spline interpolating data at pts': W = A^-T I (independent of pygyro)"""
    n = ncells if periodic else ncells + degree
    I = SO.basis_integrals_fraction(T, degree, a, b)
    A = []
    for x in pts:
        cell = SO.find_cell_fraction(T, degree, x)
        B = SO.cell_basis(T, degree, cell, x, 0)
        row = [Fr(B[j]) + (Fr(B[j + ncells]) if periodic and j < degree else 0) for j in range(n)]
        A.append(row)
    Iw = [I[j] + (I[j + ncells] if periodic and j < degree else 0) for j in range(n)]
    # solve A^T w = Iw
    At = [[A[i][j] for i in range(n)] for j in range(n)]
    M = [row[:] + [Iw[k]] for k, row in enumerate(At)]
    for c in range(n):
        p = next(r for r in range(c, n) if M[r][c] != 0)
        M[c], M[p] = M[p], M[c]
        pv = M[c][c]
        M[c] = [x / pv for x in M[c]]
        for r in range(n):
            if r != c and M[r][c] != 0:
                f = M[r][c]
                M[r] = [x - f * y for x, y in zip(M[r], M[c])]
    return [M[i][n] for i in range(n)]


def variant_constants(mode):
    """constants of the finder: '+cold' is a cold plasma whose Maxwellian underflows to exactly 0.0 in the tails of the
    velocity window [-3, 3] (the exact run leaves exp uninterpreted; the float replay sees the zeros); '+eps0' has the
    initial perturbation amplitude 0 (an equilibrium run's constants) while the distribution handed over is arbitrary"""
    c = dist.default_constants()
    if '+cold' in mode:
        c.CTi = 1 / 400
    if '+eps0' in mode:
        c.eps = 0.0
    if '+rp' in mode:
        c.rp = 3.1          # profiles centred away from the middle of the radial domain
    return c


def work(item):
    shape, nprocs, vspace, mode, canary = item          # shape = (nr, ntheta, nz); vspace = (degree, ncells, path)
    res = H.worker_result()
    m = dist.mods()
    ps = H.repo_import('pygyro.poisson.poisson_solver')
    pt = H.repo_import('pygyro.poisson.poisson_tools')
    t0 = time.time()
    if canary:
        apply_canary(dict(m, ps=ps, pt=pt), canary)
    numenv.enable(extra_modules=[(ps, None), (m['init_funcs'], None)])
    symx.set_bv(None)
    nr, nth, nz = shape
    vdeg, vcells, vpath = vspace
    vbreaks = dist.uniform_breaks(-3, 3, vcells) if vpath == 'cu' else [Fr(-3) + Fr(6 * i * i, vcells * vcells) * Fr(1, 2) + Fr(3 * i, vcells) for i in range(vcells + 1)]
    nranks = int(np.prod(nprocs))
    lay4 = {'v_parallel': [0, 2, 1, 3]}
    lay3 = {'v_parallel_2d': [0, 2, 1]}
    st = {}

    def body(ctx):
        vbasis = dist.make_basis(vdeg, False, vbreaks, uniform=(vpath == 'cu'))
        vpts = list(vbasis.greville)
        nv = len(vpts)
        eta = [numenv.karr([Fr(1, 10) + Fr(i, 3) for i in range(nr)]),
               numenv.karr([Fr(i, nth) for i in range(nth)]),
               numenv.karr([Fr(i, 2) for i in range(nz)]),
               np.array(vpts, dtype=object)]
        consts = variant_constants(mode)
        F = dist.symbolic_field('f', (nr, nth, nz, nv))
        st.update(F=F, eta=eta, vpts=vpts, consts=consts)

        def rankfn(comm):
            h4 = m['layout'].getLayoutHandler(comm, dict(lay4), list(nprocs), eta)
            h3 = m['layout'].getLayoutHandler(comm, dict(lay3), list(nprocs), eta[:3])
            g = m['grid'].Grid(eta, [None, None, None, vbasis], h4, 'v_parallel', comm=comm, dtype=object)
            rho = m['grid'].Grid(eta[:3], [None] * 3, h3, 'v_parallel_2d', comm=comm, dtype=object)
            dist.fill_grid(g, F)
            if '+hist' in mode:
                # another finder built earlier in the same process: same sizes and constants, different v grid
                vb2 = dist.make_basis(vdeg, False, [b + Fr(5, 2) for b in vbreaks], uniform=(vpath == 'cu'))
                eta2 = list(eta[:3]) + [np.array(list(vb2.greville), dtype=object)]
                ps.DensityFinder(6, vb2, eta2, consts)
            vb_use = vbasis
            if '+gc' in mode:
                # finders on v spaces that no longer exist when the measured one is built: a new space may get the address of a dead one
                import gc
                dead = set()
                for k_ in range(6):
                    vbk = dist.make_basis(vdeg, False, [b * Fr(k_ + 2, 2) + k_ for b in vbreaks], uniform=(vpath == 'cu'))
                    ps.DensityFinder(6, vbk, list(eta[:3]) + [np.array(list(vbk.greville), dtype=object)], consts)
                    dead.add(id(vbk))
                    del vbk
                gc.collect()
                keep = []
                for k_ in range(40):          # new objects for the measured space until one sits where a dead space was
                    vb_use = dist.make_basis(vdeg, False, vbreaks, uniform=(vpath == 'cu'))
                    keep.append(vb_use)
                    if id(vb_use) in dead:
                        break
            df = ps.DensityFinder(6, vb_use, eta, consts)
            if mode.startswith('perturbed'):
                df.getPerturbedRho(g, rho)
            else:
                df.getRho(g, rho)
            return rho.getLayout(rho.currentLayout), np.array(rho.getAllData(), dtype=object)
        return simmpi.World(nranks).run(rankfn)

    for ctx, (kind, val) in symx.explore(body, timeout_ms=30000):
        if kind != 'ok':
            if kind == 'abort' and not val.inconclusive:
                continue
            res['obligations'] += 1
            prob = float_replay(m, ps, item, None)
            if prob:
                res['violations'].append(('density:exception', '%s: %s' % (type(val).__name__, str(val)[:150]) + ' / ' + prob,
                                          dict(kind='density', item=str(item[:4]), concrete=prob)))
            else:
                res['inconclusive'].append('density: %s %r' % (kind, val))
            continue
        F, eta, vpts, consts = st['F'], st['eta'], st['vpts'], st['consts']
        T = oracle_knots(vbreaks, vdeg, False, vpath)
        W = oracle_weights(T, vdeg, False, vcells, [symx.fval(p) for p in vpts], vbreaks[0], vbreaks[-1])
        fe = m['init_funcs'].f_eq
        feq = {}
        bad = []
        where = []
        for rk, (L, data) in enumerate(val):
            for li in itertools.product(*[range(n) for n in data.shape]):
                ir, iz, it = li[0] + int(L.starts[0]), li[1] + int(L.starts[1]), li[2] + int(L.starts[2])
                acc = K(0)
                for l, w in enumerate(W):
                    term = F[ir, it, iz, l]
                    if mode.startswith('perturbed'):
                        if (ir, l) not in feq:
                            feq[(ir, l)] = fe(eta[0][ir], vpts[l], consts.CN0, consts.kN0, consts.deltaRN0, consts.rp,
                                              consts.CTi, consts.kTi, consts.deltaRTi)
                        term = term - feq[(ir, l)]
                    acc = acc + K(w) * term
                bad.append(toreal(zt(data[li])) != toreal(zt(acc)))
                where.append((rk, li, (ir, it, iz)))
        res['obligations'] += 1
        r = ctx.check(z3.Or(bad))
        if r == 'unsat':
            res['discharged'] += 1
            res['nontrivial'].append('density|%r' % (item[:4],))
            if len(res['samples']) < 1:
                res['samples'].append(dict(shape=list(shape), nprocs=list(nprocs), vspace=list(vspace), mode=mode, positions_checked=len(bad)))
        elif r == 'sat':
            mdl = ctx.model()
            hits = [w for w, b in zip(where, bad) if z3.is_true(mdl.eval(b, model_completion=True))][:3]
            prob = float_replay(m, ps, item, canary)
            rep = dict(kind='density', item=str(item[:4]), where=str(hits), concrete=prob, canary=bool(canary))
            if prob:
                res['violations'].append(('density:%s' % mode, '%s (e.g. rank/local/global %s)' % (prob, hits[:1]), rep))
            else:
                res['inconclusive'].append('density model does not reproduce in floats: %r' % rep)
        else:
            prob = float_replay(m, ps, item, canary)        # no verdict (uninterpreted functions at different arguments): the float run may decide
            if prob:
                res['violations'].append(('density:%s' % mode, '%s (solver verdict unknown; witness from the float run)' % prob,
                                          dict(kind='density', item=str(item[:4]), concrete=prob, canary=bool(canary))))
            else:
                res['inconclusive'].append('unknown density query %r' % (item[:4],))
    if '+cold' in mode and not canary:
        # the exact run knows exp > 0; in doubles the cold Maxwellian is exactly 0.0 in the tails: decided by the float run
        res['obligations'] += 1
        prob = float_replay(m, ps, item, None)
        if prob:
            res['violations'].append(('density:%s:float' % mode, '%s (equilibrium underflows to 0.0 in the velocity tails)' % prob,
                                      dict(kind='density', item=str(item[:4]), concrete=prob, canary=False)))
        else:
            res['discharged'] += 1
    numenv.disable()
    if canary:
        undo_canary(None)
    res['stats'] = symx.GLOBAL.as_dict()
    symx.GLOBAL.__init__()
    res['wall'] = round(time.time() - t0, 2)
    res['canary'] = canary[0] if canary else None
    return res


def float_replay(m, ps, item, canary):
    """real float code on every rank vs. a serial numpy reference (trapezoid-free: uses float weights from a serial run
    checked against the exact oracle weights)"""
    shape, nprocs, vspace, mode, _ = item
    nr, nth, nz = shape
    vdeg, vcells, vpath = vspace
    numenv.disable()
    if not canary:
        ps = H.fresh_copy(ps)       # class-level state of the symbolic run must not leak into the replay
    try:
        vbreaks = dist.uniform_breaks(-3, 3, vcells) if vpath == 'cu' else [Fr(-3) + Fr(6 * i * i, vcells * vcells) * Fr(1, 2) + Fr(3 * i, vcells) for i in range(vcells + 1)]
        kn = m['spl'].make_knots(np.array([float(x) for x in vbreaks]), vdeg, False)
        vb = m['spl'].BSplines(kn, vdeg, False, vpath == 'cu')
        vpts = np.array(vb.greville, dtype=float)
        eta = [np.array([0.1 + i / 3 for i in range(nr)]), np.array([i / nth for i in range(nth)]), np.array([i / 2 for i in range(nz)]), vpts]
        consts = variant_constants(mode)
        rng = np.random.RandomState(3)
        Fd = rng.rand(nr, nth, nz, len(vpts)) * 2 - 1
        T = oracle_knots(vbreaks, vdeg, False, vpath)
        W = np.array([float(w) for w in oracle_weights(T, vdeg, False, vcells, [Fr(float(p)).limit_denominator(10 ** 9) for p in vpts], vbreaks[0], vbreaks[-1])])
        feq = np.empty((nr, len(vpts)))
        for i in range(nr):
            for l in range(len(vpts)):
                feq[i, l] = m['init_funcs'].f_eq(eta[0][i], vpts[l], consts.CN0, consts.kN0, consts.deltaRN0, consts.rp, consts.CTi, consts.kTi, consts.deltaRTi)
        ref = np.einsum('rtzv,v->rtz', Fd - (feq[:, None, None, :] if mode.startswith('perturbed') else 0), W)
        nranks = int(np.prod(nprocs))

        def rankfn(comm):
            h4 = m['layout'].getLayoutHandler(comm, {'v_parallel': [0, 2, 1, 3]}, list(nprocs), eta)
            h3 = m['layout'].getLayoutHandler(comm, {'v_parallel_2d': [0, 2, 1]}, list(nprocs), eta[:3])
            g = m['grid'].Grid(eta, [None, None, None, vb], h4, 'v_parallel', comm=comm)
            if cplx_storage == 'complex':
                # the solver's density grid: complex storage that still holds the modes of the previous step
                rho = m['grid'].Grid(eta[:3], [None] * 3, h3, 'v_parallel_2d', comm=comm, dtype=np.complex128)
                rho.getAllData()[...] = 3.0 + 4.0j
            elif cplx_storage == 'nonfinite':
                # np.empty storage may hold anything, infinities and NaNs included
                rho = m['grid'].Grid(eta[:3], [None] * 3, h3, 'v_parallel_2d', comm=comm)
                rho.getAllData()[...] = np.inf
                rho.getAllData().flat[::2] = np.nan
            else:
                rho = m['grid'].Grid(eta[:3], [None] * 3, h3, 'v_parallel_2d', comm=comm)
            dist.fill_grid(g, Fd)
            if '+hist' in mode:
                kn2 = m['spl'].make_knots(np.array([float(x) + 2.5 for x in vbreaks]), vdeg, False)
                vb2 = m['spl'].BSplines(kn2, vdeg, False, vpath == 'cu')
                ps.DensityFinder(6, vb2, list(eta[:3]) + [np.array(vb2.greville, dtype=float)], consts)
            vb_use = vb
            if '+gc' in mode:
                import gc
                dead = set()
                for k_ in range(6):
                    knk = m['spl'].make_knots(np.array([float(x) * (k_ + 2) / 2 + k_ for x in vbreaks]), vdeg, False)
                    vbk = m['spl'].BSplines(knk, vdeg, False, vpath == 'cu')
                    ps.DensityFinder(6, vbk, list(eta[:3]) + [np.array(vbk.greville, dtype=float)], consts)
                    dead.add(id(vbk))
                    del vbk, knk
                gc.collect()
                keep = []
                for k_ in range(40):
                    vb_use = m['spl'].BSplines(m['spl'].make_knots(np.array([float(x) for x in vbreaks]), vdeg, False), vdeg, False, vpath == 'cu')
                    keep.append(vb_use)
                    if id(vb_use) in dead:
                        break
            df = ps.DensityFinder(6, vb_use, eta, consts)
            (df.getPerturbedRho if mode.startswith('perturbed') else df.getRho)(g, rho)
            L = rho.getLayout(rho.currentLayout)
            exp = dist.local_block(ref, L)
            err = float(np.max(np.abs(rho.getAllData() - exp))) if exp.size else 0.0
            return err
        cplx_storage = False
        errs = simmpi.World(nranks).run(rankfn)
        cplx_storage = 'complex'
        errs_c = simmpi.World(nranks).run(rankfn)
        cplx_storage = 'nonfinite'
        errs_n = [e if e == e else float('inf') for e in simmpi.World(nranks).run(rankfn)]
    except Exception as e:
        return 'exception %s: %s' % (type(e).__name__, e)
    finally:
        numenv.enable()
    if max(errs) > 1e-9:
        return 'density differs from the exact velocity integral by %.3g on rank %d (grid %s)' % (max(errs), int(np.argmax(errs)), list(nprocs))
    if max(errs_n) > 1e-9:
        return 'density written into storage that held inf / nan differs from the exact velocity integral (error %s on rank %d, grid %s)' % (max(errs_n), int(np.argmax(errs_n)), list(nprocs))
    if max(errs_c) > 1e-9:
        return 'density written into complex storage that held other data differs from the exact velocity integral by %.3g on rank %d (grid %s)' % (max(errs_c), int(np.argmax(errs_c)), list(nprocs))
    return None


CANARIES = [
    ('equilibrium table indexed by local radius', 'ps', [("rho.getAllData(), self._fEq[rIndices], grid.getAllData(), self._quad_coeffs)",
                                                          "rho.getAllData(), self._fEq, grid.getAllData(), self._quad_coeffs)")]),
    ('last velocity point dropped from the sum', 'pt', [("                rho[i, j, k] = 0.0\n                for l in range(nc):\n                    rho[i, j, k] += quad_coeffs[l] * \\\n",
                                                         "                rho[i, j, k] = 0.0\n                for l in range(nc-1):\n                    rho[i, j, k] += quad_coeffs[l] * \\\n")]),
]


def main():
    run = H.Run(PID, 'proof')
    m = dist.mods()
    ps = H.repo_import('pygyro.poisson.poisson_solver')
    pt = H.repo_import('pygyro.poisson.poisson_tools')
    if run.args.replay:
        print(json.dumps(json.load(open(run.args.replay))['replay'], indent=1))
        sys.exit(0)
    run.functions = H.src_info(ps.DensityFinder.__init__, ps.DensityFinder.getPerturbedRho, ps.DensityFinder.getRho,
                               pt.get_perturbed_rho, pt.get_rho, m['init_funcs'].feq_vector, m['init_funcs'].f_eq)
    quick = run.tier == 'quick'
    items = []
    grids = [(1, 1), (2, 1), (1, 2), (2, 2)] if quick else [(a, b) for a in (1, 2, 3) for b in (1, 2, 3)]
    for grid in grids:
        for mode in ('perturbed', 'total'):
            items.append(((3, 2, 3) if quick else (4, 2, 3), grid, (3, 3, 'cu'), mode, None))
    # radial extent not divisible by three radial processes with remainder 2 (block starts are not rank*(n//p))
    items.append(((5, 2, 3), (3, 1), (3, 3, 'cu'), 'perturbed', None))
    items.append(((8, 2, 3), (3, 2), (3, 3, 'cu'), 'perturbed', None))
    for vs in ([(3, 2, 'nu')] if quick else [(1, 3, 'nu'), (2, 3, 'nu'), (3, 2, 'nu'), (4, 2, 'nu'), (5, 1, 'nu'), (3, 5, 'cu')]):
        items.append(((3, 2, 3), (2, 2), vs, 'perturbed', None))
    # local radial extent equal to the number of velocity points on a rank that is not the first along r
    items.append(((10, 2, 2), (2, 1), (3, 2, 'nu'), 'perturbed', None))
    # history: a finder for another v domain (same sizes, same constants) exists already in the process
    items.append(((3, 2, 3), (2, 1), (3, 3, 'cu'), 'perturbed+cold', None))
    items.append(((3, 2, 3), (1, 2), (3, 3, 'cu'), 'perturbed+eps0', None))
    items.append(((3, 2, 3), (1, 1), (3, 2, 'nu'), 'total+cold+eps0', None))
    items.append(((3, 2, 3), (2, 1), (3, 3, 'cu'), 'perturbed+rp', None))
    items.append(((3, 2, 3), (1, 1), (3, 2, 'nu'), 'total+gc', None))
    items.append(((3, 2, 3), (1, 2), (3, 3, 'cu'), 'perturbed+gc+rp', None))
    items.append(((3, 2, 3), (1, 1), (3, 3, 'cu'), 'perturbed+hist', None))
    items.append(((3, 2, 3), (2, 1), (3, 2, 'nu'), 'perturbed+hist', None))
    if not quick:
        # larger, non-divisible extents on more process grids, every listed v space, both densities
        for shape, grid in [((7, 3, 5), (3, 2)), ((7, 3, 5), (2, 3)), ((6, 2, 4), (4, 1)), ((5, 3, 7), (1, 4)), ((9, 2, 4), (4, 2))]:
            for vs in [(1, 3, 'nu'), (2, 3, 'nu'), (3, 4, 'cu'), (4, 2, 'nu'), (5, 2, 'nu')]:
                for mode in ('perturbed', 'total'):
                    items.append((shape, grid, vs, mode, None))
        for grid in [(2, 2), (3, 1), (1, 3)]:
            for mode in ('perturbed+cold', 'perturbed+eps0', 'total+cold', 'perturbed+hist', 'total+hist', 'perturbed+cold+eps0+hist'):
                items.append(((5, 2, 3), grid, (3, 3, 'cu'), mode, None))
    for cn in CANARIES:
        items.append(((3, 2, 3), (2, 1), (3, 3, 'cu'), 'perturbed', cn))
    caught = {}
    for r in H.pmap(work, items, run.args.jobs):
        if r.get('canary'):
            run.add_stats(r.get('stats', {}))
            caught[r['canary']] = bool(r['violations'])
            continue
        run.merge(r)
    for cn in CANARIES:
        hit = caught.get(cn[0], False)
        run.canaries.append(dict(name=cn[0], detected=hit))
        if not hit:
            run.canary_miss(cn[0], caught)
    numenv.enable(extra_modules=[(ps, None), (m['init_funcs'], None)])
    run.stubs = sorted(set(numenv.STUBS)) + ['exp/tanh/sqrt: uninterpreted functions', 'mpi4py.MPI: lib/simmpi']
    numenv.disable()
    run.bounds = dict(extents='(nr,ntheta,nz) = (3,2,3) quick / (4,2,3) thorough, plus (5,2,3),(8,2,3),(10,2,2); thorough also (7,3,5),(6,2,4),(5,3,7),(9,2,4) on grids up to 4x2 with v degrees 1-5; nv from the v spline space', grids=[list(g) for g in grids],
                      v_spaces='uniform cubic 3 cells + listed general spaces')
    run.outside = ['complex storage of rho (object arrays do not distinguish it)', 'rounding', 'larger extents']
    run.assumptions = ['exact reals for doubles', 'solver contracts of C08', 'equilibrium = pygyro f_eq at the global radius with exp/tanh/sqrt uninterpreted']
    run.finish(
        explanation='All of f symbolic; real DensityFinder on every rank of the simulated grid; z3 decides equality of every local '
                    'rho entry with the exact velocity integral of the interpolant at the global position (independent exact weights), '
                    'minus the equilibrium at the global radius.',
        rule='case = (extents, process grid, v spline space, perturbed/total)')


if __name__ == '__main__':
    main()
