"""C01 -- layout transposes preserve the global field.

The real LayoutHandler (constructor, compatible, _get_swap_axes, transpose, _transpose*,
_extract_from_source, _rearrange_from_buffer, redirects, _makeConnectionMap) is executed by CPython
on *symbolic extents* (bit-vector proxies) over the symbolic-shape numpy model (lib/symnp.py) and
the MPI simulator (lib/simmpi.py).  Payload is an uninterpreted sort.  After the run, z3 is asked
for an in-range destination index whose content differs from the global field.
"""
import itertools
import json
import sys
import time
import warnings

import z3

from lib import symx, symnp, simmpi
from lib import harness as H
from lib import layoutsym as LS
from lib.symnp import zi, VAL

PID = 'C01'


def known_key(cfg, what):
    """classification used by known_findings.txt: leading process-grid extent 1, swap of axis 0"""
    return what


def enum_paths(cfg):
    """phase 1: enumerate the feasible paths (classes of extents) of one configuration"""
    return run_config(cfg, mode='enum')


def run_item(item):
    """phase 2: one path of one configuration, with all queries"""
    cfg, decisions = item
    return run_config(cfg, mode='path', decisions=decisions)


def run_config(cfg, mode='all', decisions=None):
    """cfg: dict(nd, nprocs, layouts, src, dst, buf, N, tmo)"""
    res = H.worker_result()
    real, lay = LS.modules()
    nd, nprocs, layouts = cfg['nd'], cfg['nprocs'], cfg['layouts']
    src, dst, use_buf, N = cfg['src'], cfg['dst'], cfg['buf'], cfg['N']
    canary = cfg.get('canary')
    real_mod = None
    if canary:
        real_mod = H.mutant_module(real, canary)
        lay = H.mutant_module(lay, canary)
        lay.np = symnp.NPShim()
        lay.len = symnp.symlen
    LS.install_step_contracts(lay)
    pmax = 1
    for p in nprocs:
        pmax *= p
    symx.set_bv(LS.bv_width(max(nprocs), N, nd))
    mins = [1] * nd if cfg.get('small') else LS.min_extents(nd, [(layouts, nprocs)])          # 'small': extents below the process count too
    size = pmax
    st = {}
    t0 = time.time()

    def body(ctx):
        ns = LS.extent_vars(ctx, nd, N, mins)
        eta = [symnp.SymLen(symx.SInt(nv)) for nv in ns]
        G = z3.Function('G', *([symx.isort()] * nd), VAL)
        junk = z3.Function('junk', symx.isort(), symx.isort(), symx.isort(), VAL)
        st['ns'] = ns
        st['ses'] = lay._verif_session = LS.Session(G, junk)

        def rankfn(comm):
            r = comm.Get_rank()
            with warnings.catch_warnings():
                warnings.simplefilter('ignore')
                h = lay.getLayoutHandler(comm, dict(layouts), list(nprocs), eta)
                ls, ld = h.getLayout(src), h.getLayout(dst)
                jf = lambda w: (lambda pos: junk(symx.ival(r), symx.ival(w), pos))
                s = symnp.new_array('src%d' % r, h.bufferSize, LS.field_init(ls, G, jf(0)))
                d = symnp.new_array('dst%d' % r, h.bufferSize, jf(1))
                b = symnp.new_array('buf%d' % r, h.bufferSize, jf(2)) if use_buf else None
                h.transpose(s, d, src, dst, b)
            return h, s, d, b
        out = simmpi.World(size).run(rankfn)
        return G, out

    def model_shape(ctx):
        m = ctx.model()
        return [m.eval(v, model_completion=True).as_signed_long() for v in st['ns']]

    def confirm(shape, what):
        probs = LS.concrete_handler_transpose(shape, nprocs, layouts, src, dst, use_buf, module=real_mod)
        rep = dict(kind='handler', shape=shape, nprocs=nprocs, layouts=layouts, src=src, dst=dst, buf=use_buf,
                   symbolic=what, concrete=probs, canary=bool(canary))
        if probs:
            key = classify(cfg, probs)
            res['violations'].append((key, '%s; shape %s grid %s %s->%s buf=%s: %s' % (what, shape, nprocs, src, dst, use_buf, probs[0]), rep))
        else:
            res['inconclusive'].append('model does not reproduce on real numpy: %r' % rep)

    npaths = 0
    if mode == 'enum':
        paths = []
        for ctx, (kind, val) in symx.explore(body, timeout_ms=cfg['tmo'], index_cap=64):
            paths.append([dict(d) for d in ctx.decisions])
        res['paths'] = paths
        res['cfg'] = cfg
        res['configs'] = 0
        res['stats'] = symx.GLOBAL.as_dict()
        symx.GLOBAL.__init__()
        res['wall'] = round(time.time() - t0, 2)
        return res
    if mode == 'path':
        gen = [symx.run_path(body, decisions, timeout_ms=cfg['tmo'], index_cap=64)]
    else:
        gen = symx.explore(body, timeout_ms=cfg['tmo'], index_cap=64)
    for ctx, (kind, val) in gen:
        npaths += 1
        if kind == 'abort':
            if val.inconclusive:
                res['inconclusive'].append('abort: %s in %s' % (val.why, tag(cfg)))
            continue
        if kind == 'exc':
            # an exception on a feasible path (numpy ValueError, AssertionError, MPIMismatch, Deadlock ...)
            res['obligations'] += 1
            if isinstance(val, NotImplementedError):
                res['inconclusive'].append('model limitation %r in %s' % (val, tag(cfg)))
                continue
            if isinstance(val, RuntimeError) and 'could not be connected' in str(val):
                # the handler does not accept this set of orderings: outside the property
                res['obligations'] -= 1
                continue
            r = ctx.check()
            if r == 'sat':
                confirm(model_shape(ctx), 'exception %s: %s' % (type(val).__name__, str(val)[:160]))
            else:
                res['inconclusive'].append('exception path without model (%s) %r' % (r, val))
            continue
        G, out = val
        for ob, r in st['ses'].discharge(ctx, nd):
            res['obligations'] += 1
            if r == 'unsat':
                res['discharged'] += 1
            elif r == 'sat':
                confirm(model_shape(ctx), 'single step %d (%s): %s' % (ob['step'], ob['arr'].buf.name,
                        'destination differs from global field' if ob['kind'] == 'dest' else 'source modified although buffer given'))
            else:
                res['inconclusive'].append('unknown (step query) %s' % tag(cfg))
        for rk, (h, s, d, b) in enumerate(out):
            ld, ls = h.getLayout(dst), h.getLayout(src)
            li = [symx.mkint('i%d' % a) for a in range(nd)]
            cons = [z3.And(li[a] >= 0, li[a] < zi(ld.shape[a])) for a in range(nd)]
            got = symnp.read_buf(d.buf, d.buf.version(), LS.flat_pos(ld, li))
            res['obligations'] += 1
            r = ctx.check(*cons, got != LS.expected_at(ld, G, li))
            if r == 'unsat':
                res['discharged'] += 1
            elif r == 'sat':
                confirm(model_shape(ctx), 'rank %d destination differs from global field' % rk)
            else:
                res['inconclusive'].append('unknown (dest query) rank %d %s' % (rk, tag(cfg)))
            if use_buf:
                pos = symx.mkint('pos')
                res['obligations'] += 1
                now = symnp.read_buf(s.buf, s.buf.version(), pos)
                r = ctx.check(pos >= 0, pos < zi(ls.size), now != s.buf.epochs[0][1](pos))
                if r == 'unsat':
                    res['discharged'] += 1
                elif r == 'sat':
                    confirm(model_shape(ctx), 'rank %d source modified although buffer given' % rk)
                else:
                    res['inconclusive'].append('unknown (source-intact query) rank %d %s' % (rk, tag(cfg)))
        # vacuity twin: the path condition itself must be satisfiable (assert False reachable)
        if ctx.check() != 'sat':
            res['inconclusive'].append('vacuous path in %s' % tag(cfg))
        else:
            shp = model_shape(ctx)
            res['nontrivial'].append('%s|%s' % (tag(cfg), len(ctx.decisions)) + '|' + ','.join(str(d['choice'])[0] for d in ctx.decisions[-12:]))
            if len(res['samples']) < 1:
                res['samples'].append(dict(config=tag(cfg), example_shape=shp, path_decisions=len(ctx.decisions)))
    res['stats'] = symx.GLOBAL.as_dict()
    symx.GLOBAL.__init__()
    res['cfg'] = tag(cfg)
    res['paths'] = npaths
    res['wall'] = round(time.time() - t0, 2)
    res['canary'] = cfg.get('canary_name')
    return res


def classify(cfg, probs):
    """key for known_findings: failing call-site class"""
    return 'transpose:%s' % ('leading_grid_extent_1' if cfg['nprocs'][0] == 1 and len(cfg['nprocs']) > 1 else 'general')


def tag(cfg):
    return 'd%d grid%s %s %s->%s buf=%d N=%d' % (cfg['nd'], tuple(cfg['nprocs']), json.dumps(cfg['layouts'], sort_keys=True),
                                                    cfg['src'], cfg['dst'], cfg['buf'], cfg['N'])


def perm_name(p):
    return 'L' + ''.join(str(x) for x in p)


def configs(tier):
    out = []
    tmo = 120000 if tier == 'quick' else 600000

    def add(nd, nprocs, layouts, src, dst, buf, N):
        out.append(dict(nd=nd, nprocs=list(nprocs), layouts=layouts, src=src, dst=dst, buf=buf, N=N, tmo=tmo))
    # ---- direct transposes: source = identity ordering, destination = every ordering `compatible` accepts
    if tier == 'quick':
        plan = [(2, [(2,), (3,)], 4), (3, [(2,), (1, 2), (2, 2), (2, 1)], 3)]
    else:
        plan = [(2, [(2,), (3,), (4,)], 6), (3, [(2,), (3,), (1, 2), (2, 1), (2, 2), (1, 3), (3, 1), (2, 3), (3, 2)], 4),
                (4, [(1, 2), (2, 1), (2, 2), (1, 3)], 3)]
    for nd, grids, N in plan:
        ident = tuple(range(nd))
        for grid in grids:
            for dstp in itertools.permutations(range(nd)):
                if dstp == ident:
                    continue
                ndiff = sum(1 for i, p in enumerate(grid) if p > 1 and dstp[i] != ident[i])
                if ndiff >= 2:
                    continue
                for buf in (False, True):
                    if nd == 4 and buf and dstp[0] == 0 and dstp[1] == 1:
                        continue      # purely local transposes with buffer: covered at d<=3
                    add(nd, grid, {perm_name(ident): list(ident), perm_name(dstp): list(dstp)},
                        perm_name(ident), perm_name(dstp), buf, N)
    # ---- process grids with three axes (extent-1 axis in front / in the middle) and reorderings that are 3-cycles of the
    #      non-distributed positions with a spare buffer (a swap is its own inverse permutation, a 3-cycle is not)
    ident4 = (0, 1, 2, 3)
    for grid3 in ([(1, 2, 2)] if tier == 'quick' else [(1, 2, 2), (2, 1, 2), (2, 2, 1), (1, 1, 2)]):
        for dstp in ([(0, 2, 1, 3), (0, 1, 3, 2), (3, 1, 2, 0)] if tier == 'quick' else [(0, 2, 1, 3), (0, 1, 3, 2), (3, 1, 2, 0), (0, 3, 2, 1), (2, 1, 0, 3)]):
            add(4, grid3, {perm_name(ident4): list(ident4), perm_name(dstp): list(dstp)}, perm_name(ident4), perm_name(dstp), False, 3)
    add(4, (2,), {perm_name(ident4): list(ident4), 'L0231': [0, 2, 3, 1]}, perm_name(ident4), 'L0231', True, 3)
    add(4, (2,), {perm_name(ident4): list(ident4), 'L0312': [0, 3, 1, 2]}, 'L0312', perm_name(ident4), True, 3)
    # ---- physics orderings verbatim (setups.py 4-D, fullSimulation.py 3-D), incl. the 2-step route
    phys4 = {'flux_surface': [0, 3, 1, 2], 'v_parallel': [0, 2, 1, 3], 'poloidal': [3, 2, 1, 0]}
    phys3 = {'v_parallel_2d': [0, 2, 1], 'mode_solve': [1, 2, 0]}
    if tier == 'quick':
        add(3, (2, 2), phys3, 'v_parallel_2d', 'mode_solve', False, 3)
        add(3, (1, 2), phys3, 'mode_solve', 'v_parallel_2d', True, 3)
    else:
        for grid in [(1, 2), (2, 1), (2, 2), (1, 3), (3, 1)]:
            for a, b in itertools.permutations(phys3, 2):
                for buf in (False, True):
                    add(3, grid, phys3, a, b, buf, 4)
        for grid in [(1, 2), (2, 1), (2, 2)]:
            for a, b in itertools.permutations(phys4, 2):
                for buf in (False, True):
                    add(4, grid, phys4, a, b, buf, 3)
    # ---- multi-step routes on small handlers (3 layouts in a chain), d=3
    chain = {'A': [0, 1, 2], 'B': [1, 0, 2], 'C': [1, 2, 0]}      # A-B differ in pos 0,1 ; on grid (2,2): A-B incompatible?
    chain1 = {'A': [0, 1, 2], 'B': [2, 1, 0], 'C': [2, 0, 1]}     # on (2,2): A-B (pos0), B-C (pos1), A-C both -> 2 steps
    grids = [(2, 2)] if tier == 'quick' else [(2, 2), (2, 3), (3, 2)]
    for grid in grids:
        for a, b in ([('A', 'C')] if tier == 'quick' else [('A', 'C'), ('C', 'A')]):
            for buf in (False, True):
                add(3, grid, chain1, a, b, buf, 3)
    # ---- extents below the process count (some processes hold no points; the handler accepts that)
    small_pairs = [('L012', 'L102', False)] if tier == 'quick' else [('L012', 'L102', False), ('L102', 'L012', False), ('L012', 'L102', True), ('L102', 'L012', True)]
    for a, b, buf in small_pairs:
        add(3, (3,), {'L012': [0, 1, 2], 'L102': [1, 0, 2]}, a, b, buf, 3 if tier == 'quick' else 4)
        out[-1]['small'] = True
    if tier != 'quick':
        add(3, (2, 2), {'L012': [0, 1, 2], 'L210': [2, 1, 0]}, 'L012', 'L210', False, 3)
        out[-1]['small'] = True
    # ---- four layouts in a chain: the only route from A to D has three steps (the loop over the remaining steps runs twice)
    chain4 = {'A': [0, 1, 2], 'B': [2, 1, 0], 'C': [2, 0, 1], 'D': [1, 0, 2]}
    for grid in grids:
        for a, b in ([('A', 'D')] if tier == 'quick' else [('A', 'D'), ('D', 'A')]):
            for buf in (False, True):
                add(3, grid, chain4, a, b, buf, 3)
    # ---- five layouts in a chain: four steps end to end (an even number of steps above two; without a spare buffer the result
    #      has to be brought into the destination by the final copy)
    chain5 = dict(chain4, E=[1, 2, 0])
    for a, b, buf in ([('A', 'E', False)] if tier == 'quick' else [('A', 'E', False), ('E', 'A', False), ('A', 'E', True), ('E', 'A', True)]):
        add(3, (2, 2), chain5, a, b, buf, 2 if buf else 3)          # with a spare buffer: extents 2 only (the four-step items are the most expensive ones)
    return out


CANARIES = [
    ('block start uses max_block_shape of destination', [(
        "start = layout_source.max_block_shape[axis[0]]*r",
        "start = layout_dest.max_block_shape[axis[0]]*r")]),
    ('even/uneven test looks at one axis only', [(
        "if (layout_dest.shape[axis[2]] % mpi_size == 0 and layout_source.shape[axis[1]] % mpi_size == 0):",
        "if (layout_dest.shape[axis[2]] % mpi_size == 0):")]),
    ('redirect forgets the final copy', [(
        "        # Ensure the result is found in the expected place\n        if (nSteps % 2 == 0):\n            dest[:] = source\n\n    def _transposeRedirect_source_intact(self, source, dest, buf, source_name, dest_name):\n        \"\"\"\n        Function for changing layout via multiple steps.\n        \"\"\"\n        # Get route from one layout to another\n        steps = self._route_map[source_name][dest_name]\n        nSteps = len(steps)\n\n        # warn about multiple steps\n        warnings.warn(\"Changing from {0} layout to {1} layout requires {2} steps\"\n                      .format(source_name, dest_name, nSteps))\n\n        # take the first step to move the data\n        nowLayoutKey = steps[0]\n        nowLayout = self._layouts[nowLayoutKey]",
        "        # Ensure the result is found in the expected place\n        if (nSteps % 2 == 1):\n            dest[:] = source\n\n    def _transposeRedirect_source_intact(self, source, dest, buf, source_name, dest_name):\n        \"\"\"\n        Function for changing layout via multiple steps.\n        \"\"\"\n        # Get route from one layout to another\n        steps = self._route_map[source_name][dest_name]\n        nSteps = len(steps)\n\n        # warn about multiple steps\n        warnings.warn(\"Changing from {0} layout to {1} layout requires {2} steps\"\n                      .format(source_name, dest_name, nSteps))\n\n        # take the first step to move the data\n        nowLayoutKey = steps[0]\n        nowLayout = self._layouts[nowLayoutKey]")]),
]


def main():
    run = H.Run(PID, 'proof')
    real, lay = LS.modules()
    if run.args.replay:
        rp = json.load(open(run.args.replay))['replay']
        print(LS.concrete_handler_transpose(rp['shape'], rp['nprocs'], rp['layouts'], rp['src'], rp['dst'], rp['buf']))
        sys.exit(0)
    LH = real.LayoutHandler
    run.functions = H.src_info(real.Layout.__init__, real.getLayoutHandler, LH.__init__, LH.compatible, LH._get_swap_axes,
                               LH.transpose, LH._transpose, LH._transpose_source_intact, LH._extract_from_source,
                               LH._rearrange_from_buffer, LH._transposeRedirect, LH._transposeRedirect_source_intact,
                               real.LayoutManager._makeConnectionMap)
    run.stubs = LS.stubs() + ['numpy arrays of symbolic shape: lib/symnp.SymArr (write-log view model)',
                              'mpi4py.MPI: lib/simmpi (deterministic thread co-scheduling, MPI collective contract)']
    cfgs = configs(run.tier)
    cfgs.sort(key=lambda c: -(c['nd'] * 10 + len(c['nprocs']) * 3 + c['N']))
    # canaries (in-memory mutants of layout.py) travel through the same two-phase pipeline
    for name, edits in CANARIES:
        if name.startswith('redirect'):
            base = dict(nd=3, nprocs=[2, 2], layouts={'A': [0, 1, 2], 'B': [2, 1, 0], 'C': [2, 0, 1]}, src='A', dst='C', buf=False, N=3, tmo=120000)
        else:
            base = dict(nd=2, nprocs=[2], layouts={'L01': [0, 1], 'L10': [1, 0]}, src='L01', dst='L10', buf=False, N=4, tmo=120000)
        base.update(canary=edits, canary_name=name)
        cfgs.append(base)
    walls = []
    items = []
    caught = {}
    for r in H.pmap(enum_paths, cfgs, run.args.jobs):
        run.add_stats(r.get('stats', {}))
        if r.get('canary') == '__not_applicable__':
            caught['__not_applicable__'] = True          # the canary's edit does not apply to the current source
            continue
        if 'cfg' not in r:
            for i in r.get('inconclusive', []):
                run.inconc(i)
            continue
        if not r['cfg'].get('canary_name'):
            for i in r.get('inconclusive', []):
                run.inconc(i)
            run.configs += 1
        for d in r.get('paths', []):
            items.append((r['cfg'], d))
    items.sort(key=lambda it: -(it[0]['nd'] * 10 + len(it[0]['nprocs']) * 3 + len(it[0]['layouts'])))
    run.sections['paths_total'] = len(items)
    for r in H.pmap(run_item, items, run.args.jobs):
        r['configs'] = 0
        if r.get('canary'):
            run.add_stats(r.get('stats', {}))
            caught[r['canary']] = caught.get(r['canary'], False) or bool(r['violations'])
            continue
        run.merge(r)
        walls.append((r.get('wall', 0), r.get('cfg')))
    walls.sort(reverse=True)
    run.sections['slowest_paths'] = walls[:5]
    for name, edits in CANARIES:
        hit = caught.get(name, False)
        run.canaries.append(dict(name=name, detected=hit))
        if not hit:
            run.canary_miss(name, caught)
    run.bounds = dict(quick='ranks 2-3, extents n_i in [p_i, N] with N=4 (2-D) / 3 (3-D), grids (2),(3),(1,2),(2,1),(2,2); one configuration with extents in [1, 3] on 3 processes (processes without points)',
                      thorough='ranks 2-4, N=6/4/3, grids up to 3 processes per direction (see configs())',
                      this_run=run.tier)
    run.outside = ['extents above N', 'more than 3 (quick) / 4 processes per direction', 'more than two distributed directions',
                   'element byte width (payload is an uninterpreted sort: float/complex/int differ only in element size)']
    run.assumptions = ['numpy view semantics as modelled by lib/symnp.SymArr (split/reshape of 1-D contiguous slices, transpose, '
                       'slice clipping, broadcasting assignment)', 'MPI Alltoall contract (equal chunks, chunk j of rank i to chunk i of rank j)']
    run.finish(
        explanation='Real LayoutHandler code run on bit-vector extents; per feasible path (class of extents) and rank, z3 decides '
                    '"exists in-range destination index whose content differs from G at the corresponding global index" and '
                    '(buffer given) "exists source position below layout.size that changed"; exceptions on feasible paths '
                    '(numpy ValueError etc.) are violations. Every sat model is replayed on real numpy with the thread MPI simulator.',
        rule='one case = (array rank, process grid, layout set, source, destination, buffer?) x feasible path (class of extents); '
             'distinct = distinct configuration/path signature')


if __name__ == '__main__':
    main()
