"""C12 -- poloidal advection traces 2nd-order ExB characteristics and interpolates at the foot (partial).

The real PoloidalAdvection.step (2-D interpolation of f, poloidal_advection_step_expl / _impl) runs in exact arithmetic with
the whole distribution f[theta,r] symbolic, for a listed family of rational potentials and time steps:
  const     constant potential                      -> f unchanged                     (both schemes)
  rot       phi = omega r^2/2                        -> exact rigid rotation by omega dt/B0 (both schemes; the implicit
                                                       iteration must stop after its first pass)
  wave      phi = a(theta) (r-independent spline)     -> purely radial drift, feet leave the domain for the larger dt
  generic   random rational spline coefficients       -> explicit scheme only
z3 decides, for all f, that every new nodal value equals the 2-D oracle interpolant of f (independent collocation +
Cox-de Boor) at the foot computed by an independent exact implementation of the stated Heun scheme (theta modulo
2 pi), or the stated boundary value (zero / equilibrium at the inner radius / equilibrium at the foot) outside.
Not decided: arbitrary symbolic potentials, third-order agreement of the two schemes, convergence of the implicit
iteration for general potentials (its exact-arithmetic iterates grow without bound in size).
"""
import json
import random
import sys
import time
from fractions import Fraction as Fr

import numpy as np
import z3

from lib import symx, numenv, dist
from lib import harness as H
from lib import splineoracle as SO
from lib.symx import K, SReal, zt, toreal
from checks.c07 import oracle_knots, apply_canary, undo_canary, breaks_family
from checks.c11 import Consts
from checks.c13 import TWO_PI

PID = 'C12'


def spaces(path, nq, ncr, rdeg):
    qb = [TWO_PI * Fr(i, nq) for i in range(nq + 1)]
    rb = dist.uniform_breaks(1, 3, ncr) if path == 'cu' else [Fr(1) + Fr(2) * (b - breaks_family('graded', ncr)[0]) / (breaks_family('graded', ncr)[-1] - breaks_family('graded', ncr)[0]) for b in breaks_family('graded', ncr)]
    return qb, rb


def potential_coeffs(kind, param, nq, qdeg, ncr, rdeg, Tr, rpts, seed):
    """coefficient array (nq+qdeg, ncr+rdeg) of the potential spline, exact rationals"""
    nbr = ncr + rdeg
    if kind == 'const':
        return [[Fr(7, 3)] * nbr for _ in range(nq + qdeg)]
    if kind == 'rot':
        cr = SO.interpolant_coeffs(Tr, rdeg, False, ncr, rpts, [param * x * x / 2 for x in rpts])
        return [list(cr) for _ in range(nq + qdeg)]
    rnd = random.Random(seed)
    if kind == 'rotwave':
        # rigid rotation of more than one turn per step plus a theta-dependent part: the predictor lands beyond [0, 2 pi)
        cr = SO.interpolant_coeffs(Tr, rdeg, False, ncr, rpts, [param * x * x / 2 for x in rpts])
        a = [Fr(rnd.randint(-4, 4), 8) for _ in range(nq)]
        a = a + a[:qdeg]
        return [[cr[j] + a[i] for j in range(nbr)] for i in range(nq + qdeg)]
    if kind == 'wave_local':
        # theta-dependence confined away from the last theta rows: rows converge at different speeds in the implicit scheme
        a = [Fr(0)] * nq
        a[1], a[2] = param, -param
        a = a + a[:qdeg]
        return [[a[i]] * nbr for i in range(nq + qdeg)]
    if kind == 'strong':
        # large theta variation growing with r: the implicit iteration contracts slowly (more than a hundred sweeps to 1e-13)
        import math
        a = [Fr(math.sin(2 * math.pi * i / nq)).limit_denominator(1000) * param for i in range(nq)]
        a = a + a[:qdeg]
        return [[a[i] * (1 + Fr(3 * j, 10)) for j in range(nbr)] for i in range(nq + qdeg)]
    if kind == 'wave':
        a = [Fr(rnd.randint(-6, 6), 4) * param for _ in range(nq)]
        a = a + a[:qdeg]
        return [[a[i]] * nbr for i in range(nq + qdeg)]
    C = [[Fr(rnd.randint(-8, 8), 5) * param for _ in range(nbr)] for _ in range(nq)]
    return C + C[:qdeg]


def work(item):
    path, qdeg, rdeg, nq, ncr, pot, param, dt, scheme, nul, canary = item[:11]
    pre_dts = item[11] if len(item) > 11 else ()       # steps taken before on the SAME object (its buffers are reused)
    res = H.worker_result()
    m = dist.mods()
    adv = H.repo_import('pygyro.advection.advection')
    acc = H.repo_import('pygyro.advection.accelerated_advection_steps')
    t0 = time.time()
    if canary:
        apply_canary(dict(m, adv=adv, acc=acc), canary)
    numenv.enable(extra_modules=[(adv, None), (acc, None), (m['init_funcs'], None)])
    symx.set_bv(None)
    qbreaks, rbreaks = spaces(path, nq, ncr, rdeg)
    Tq = oracle_knots(qbreaks, qdeg, True, path)
    Tr = oracle_knots(rbreaks, rdeg, False, path)
    B0 = Fr(3, 2)
    vpar = Fr(1, 2)
    st = {}

    class PC(Consts):
        pass
    PC.B0 = B0

    def body(ctx):
        qs = dist.make_basis(qdeg, True, qbreaks, uniform=(path == 'cu'))
        rs = dist.make_basis(rdeg, False, rbreaks, uniform=(path == 'cu'))
        qpts, rpts = [symx.fval(p) for p in qs.greville], [symx.fval(p) for p in rs.greville]
        eta = [np.array(list(rs.greville), dtype=object), np.array(list(qs.greville), dtype=object), numenv.karr([0, 1]), numenv.karr([vpar])]
        tol = Fr(scheme.split('@')[1]) if '@' in scheme else Fr(1, 10 ** 10)
        pa = adv.PoloidalAdvection(eta, [qs, rs], PC, nulEdge=nul, explicitTrap=(scheme == 'expl'), tol=K(tol))
        phi = m['spl'].Spline2D(qs, rs)
        Cphi = potential_coeffs(pot, param, nq, qdeg, ncr, rdeg, Tr, rpts, seed=11)
        for i in range(len(Cphi)):
            for j in range(len(Cphi[0])):
                phi.coeffs[i, j] = K(Cphi[i][j])
        f = dist.symbolic_field('f', (len(qpts), len(rpts)))
        f0 = f.copy()
        st.update(f0=f0, qpts=qpts, rpts=rpts, Cphi=Cphi)
        for pdt in pre_dts:
            g = np.empty(f.shape, dtype=object)
            for idx in np.ndindex(*f.shape):
                g[idx] = K(Fr(1 + idx[0] + 2 * idx[1], 7))
            pa.step(g, K(pdt), phi, K(vpar))
        pa.step(f, K(dt), phi, K(vpar))
        return f

    def spline2(T1, p1, T2, p2, C, x, y, d1, d2):
        c1, c2 = SO.find_cell_fraction(T1, p1, x), SO.find_cell_fraction(T2, p2, y)
        B1, B2 = SO.cell_basis(T1, p1, c1, x, d1), SO.cell_basis(T2, p2, c2, y, d2)
        acc = 0
        for i, b1 in enumerate(B1):
            if isinstance(b1, int) and b1 == 0:
                continue
            for j, b2 in enumerate(B2):
                if isinstance(b2, int) and b2 == 0:
                    continue
                acc = acc + C[i][j] * (b1 * b2)
        return acc

    def feet(qpts, rpts, Cphi):
        """the stated scheme in exact arithmetic: explicit Heun (the implicit one coincides on the potentials it is run for)"""
        mf = Fr(dt) / B0
        rmin, rmax = rpts[0], rpts[-1]
        out = {}
        if scheme.startswith('impl@'):
            # the stated implicit trapezoid: fixed-point iteration from the Euler foot, radial clipping, iterated until the
            # largest change of any foot (theta distance on the circle, radial distance) is at most tol
            tol = Fr(scheme.split('@')[1])
            d0 = {}
            cur = {}
            for i, q in enumerate(qpts):
                for j, r in enumerate(rpts):
                    dr0 = spline2(Tq, qdeg, Tr, rdeg, Cphi, q, r, 0, 1) / r
                    dq0 = spline2(Tq, qdeg, Tr, rdeg, Cphi, q, r, 1, 0) / r
                    d0[(i, j)] = (dr0, dq0)
                    cur[(i, j)] = (q - dr0 * mf, r + dq0 * mf)
            for it in range(60):
                norm = Fr(0)
                nxt = {}
                for (i, j), (q1, r1) in cur.items():
                    q, r = qpts[i], rpts[j]
                    q1 = q1 % TWO_PI
                    if rmin <= r1 <= rmax:
                        drk = spline2(Tq, qdeg, Tr, rdeg, Cphi, q1, r1, 0, 1) / r1
                        dqk = spline2(Tq, qdeg, Tr, rdeg, Cphi, q1, r1, 1, 0) / r1
                    else:
                        drk = dqk = Fr(0)
                    q2 = (q - (d0[(i, j)][0] + drk) * mf / 2) % TWO_PI
                    r2 = min(max(r + (d0[(i, j)][1] + dqk) * mf / 2, rmin), rmax)
                    dd = abs(q2 - q1)
                    if dd > TWO_PI / 2:
                        dd = TWO_PI - dd
                    norm = max(norm, dd, abs(r2 - r1))
                    nxt[(i, j)] = (q2, r2)
                cur = nxt
                if norm <= tol:
                    break
            else:
                raise RuntimeError('oracle implicit iteration did not converge in 60 passes')
            st['impl_passes'] = it + 1
            return cur
        for i, q in enumerate(qpts):
            for j, r in enumerate(rpts):
                dr0 = spline2(Tq, qdeg, Tr, rdeg, Cphi, q, r, 0, 1) / r
                dq0 = spline2(Tq, qdeg, Tr, rdeg, Cphi, q, r, 1, 0) / r
                q1 = (q - dr0 * mf) % TWO_PI
                r1 = r + dq0 * mf
                if rmin <= r1 <= rmax:
                    drk = spline2(Tq, qdeg, Tr, rdeg, Cphi, q1, r1, 0, 1) / r1
                    dqk = spline2(Tq, qdeg, Tr, rdeg, Cphi, q1, r1, 1, 0) / r1
                else:
                    drk = dqk = Fr(0)
                out[(i, j)] = ((q - (dr0 + drk) * mf / 2) % TWO_PI, r + (dq0 + dqk) * mf / 2)
        return out

    if pot == 'strong':
        # float-only item: the iteration needs far more sweeps than an exact run can afford; the real float step (in a child, under
        # the CPU budget) is compared with an independent float implementation of the stated iteration run to its tolerance
        res['obligations'] += 1
        prob = H.in_child(float_replay, m, adv, item)
        if prob:
            res['violations'].append(('poloidal:%s:float' % scheme, prob, dict(kind='poloidal', item=[str(x) for x in item[:10]], concrete=prob)))
        else:
            res['discharged'] += 1
            res['nontrivial'].append('pol-float|%r' % (item[:10],))
        res['wall'] = round(time.time() - t0, 2)
        res['canary'] = None
        return res
    stuck = None
    if scheme.startswith('impl'):
        # "the implicit iteration terminates": the exact run below would never come back either
        res['obligations'] += 1
        stuck = H.in_child(float_replay, m, adv, item, True)
        if stuck:
            res['violations'].append(('poloidal:termination', stuck, dict(kind='poloidal', item=[str(x) for x in item[:10]], concrete=stuck)))
        else:
            res['discharged'] += 1
    for ctx, (kind, val) in (() if stuck else symx.explore(body, timeout_ms=60000, index_cap=64, maxpaths=50)):
        if kind != 'ok':
            if kind == 'abort' and not val.inconclusive:
                continue
            res['obligations'] += 1
            prob = float_replay(m, adv, item)
            if prob:
                res['violations'].append(('poloidal:exception', '%s: %s / %s' % (type(val).__name__, str(val)[:100], prob), dict(kind='poloidal', item=[str(x) for x in item[:10]])))
            else:
                res['inconclusive'].append('poloidal: %s %r %r' % (kind, val, item[:10]))
            continue
        f0, qpts, rpts, Cphi = st['f0'], st['qpts'], st['rpts'], st['Cphi']
        nbq, nbr = nq + qdeg, ncr + rdeg
        # oracle 2-D interpolant of f: tensor product of the 1-D oracle interpolations
        rows = [SO.interpolant_coeffs(Tr, rdeg, False, ncr, rpts, list(f0[i, :])) for i in range(len(qpts))]          # along r for each theta
        Cf = [[None] * nbr for _ in range(nbq)]
        for j in range(nbr):
            col = SO.interpolant_coeffs(Tq, qdeg, True, nq, qpts, [rows[i][j] for i in range(len(qpts))])
            for i in range(nbq):
                Cf[i][j] = col[i]
        ft = feet(qpts, rpts, Cphi)
        rmin, rmax = rpts[0], rpts[-1]
        fe = m['init_funcs'].f_eq
        bad, where = [], []
        for (i, j), (qf, rf) in ft.items():
            if rf < rmin:
                exp = K(0) if nul else fe(K(rmin), K(vpar), Consts.CN0, Consts.kN0, Consts.deltaRN0, Consts.rp, Consts.CTi, Consts.kTi, Consts.deltaRTi)
            elif rf > rmax:
                exp = K(0) if nul else fe(K(rf), K(vpar), Consts.CN0, Consts.kN0, Consts.deltaRN0, Consts.rp, Consts.CTi, Consts.kTi, Consts.deltaRTi)
            else:
                exp = spline2(Tq, qdeg, Tr, rdeg, Cf, qf, rf, 0, 0)
            if pot == 'const':
                exp = f0[i, j]          # the statement's consequence, asserted directly
            bad.append(toreal(zt(K(val[i, j]))) != toreal(zt(K(exp))))
            where.append((i, j, str(qf)[:20], str(rf)[:20]))
        if pot == 'rot':
            # exact rigid rotation: foot = (theta - omega dt / B0 mod 2 pi, r)
            for (i, j), (qf, rf) in ft.items():
                if qf != (qpts[i] - param * Fr(dt) / B0) % TWO_PI or rf != rpts[j]:
                    bad.append(z3.BoolVal(True))
                    where.append(('oracle feet are not a rigid rotation', i, j, ''))
        res['obligations'] += 1
        r_ = ctx.check(z3.Or(bad))
        if r_ == 'unsat':
            res['discharged'] += 1
            nout = sum(1 for (qf, rf) in ft.values() if rf < rmin or rf > rmax)
            res['nontrivial'].append('pol|%r|out=%d' % (item[:10], nout))
            if len(res['samples']) < 1:
                res['samples'].append(dict(config=[str(x) for x in item[:10]], nodes=len(bad), feet_outside_domain=nout))
        elif r_ == 'sat':
            mdl = ctx.model()
            hits = [w for w, b in zip(where, bad) if z3.is_true(mdl.eval(b, model_completion=True))][:3]
            prob = float_replay(m, adv, item)
            rep = dict(kind='poloidal', item=[str(x) for x in item[:10]], nodes=[str(h) for h in hits], concrete=prob, canary=bool(canary))
            if prob:
                res['violations'].append(('poloidal:%s' % scheme, '%s (nodes %s)' % (prob, hits[:2]), rep))
            else:
                res['inconclusive'].append('model does not reproduce in floats: %r' % rep)
        else:
            res['inconclusive'].append('unknown poloidal query %r' % (item[:10],))
    numenv.disable()
    if canary:
        undo_canary(None)
    res['stats'] = symx.GLOBAL.as_dict()
    symx.GLOBAL.__init__()
    res['wall'] = round(time.time() - t0, 2)
    res['canary'] = canary[0] if canary else None
    return res


REF_SWEEPS = [0]
FLOAT_STEP_CPU_S = 120      # a float step on these grids takes milliseconds
NONTERMINATION = 'the float step does not return within %d s of CPU time' % FLOAT_STEP_CPU_S


def float_replay(m, adv, item, termination_only=False):
    """real float code vs. an independent float implementation (scipy-free: the exact oracle evaluated on a random f)"""
    path, qdeg, rdeg, nq, ncr, pot, param, dt, scheme, nul = item[:10]
    pre_dts = item[11] if len(item) > 11 else ()
    numenv.disable()
    try:
        qbreaks, rbreaks = spaces(path, nq, ncr, rdeg)
        Tq = oracle_knots(qbreaks, qdeg, True, path)
        Tr = oracle_knots(rbreaks, rdeg, False, path)
        kq = m['spl'].make_knots(np.array([float(b) for b in qbreaks]), qdeg, True)
        kr = m['spl'].make_knots(np.array([float(b) for b in rbreaks]), rdeg, False)
        qs, rs = m['spl'].BSplines(kq, qdeg, True, path == 'cu'), m['spl'].BSplines(kr, rdeg, False, path == 'cu')
        qpf, rpf = np.array(qs.greville, dtype=float), np.array(rs.greville, dtype=float)
        qpts = [Fr(x).limit_denominator(10 ** 12) for x in qpf]
        rpts = [Fr(x).limit_denominator(10 ** 12) for x in rpf]
        B0 = Fr(3, 2)

        class FC:
            pass
        for k_ in ('CN0', 'kN0', 'deltaRN0', 'rp', 'CTi', 'kTi', 'deltaRTi'):
            setattr(FC, k_, float(getattr(Consts, k_)))
        FC.B0 = float(B0)
        eta = [rpf, qpf, np.array([0.0, 1.0]), np.array([0.5])]
        tolf = float(Fr(scheme.split('@')[1])) if '@' in scheme else 1e-10
        pa = adv.PoloidalAdvection(eta, [qs, rs], FC, nulEdge=nul, explicitTrap=(scheme == 'expl'), tol=tolf)
        phi = m['spl'].Spline2D(qs, rs)
        Cphi = potential_coeffs(pot, param, nq, qdeg, ncr, rdeg, Tr, rpts, seed=11)
        phi.coeffs[:, :] = np.array([[float(x) for x in row] for row in Cphi])
        rng = np.random.RandomState(9)
        f = rng.rand(len(qpf), len(rpf)) + 0.5
        fin = f.copy()
        timed_out = False
        try:
            with H.cpu_limit(FLOAT_STEP_CPU_S):
                for pdt in pre_dts:
                    g = np.array([[(1 + i + 2 * j) / 7.0 for j in range(len(rpf))] for i in range(len(qpf))])
                    pa.step(g, float(pdt), phi, 0.5)
                pa.step(f, float(dt), phi, 0.5)
        except H.CpuTimeout:
            timed_out = True          # reported below only if the stated iteration itself ends on this input
        if termination_only and not timed_out:
            return None
        # reference
        it = m['si'].SplineInterpolator2D(qs, rs)
        sp = m['spl'].Spline2D(qs, rs)
        it.compute_interpolant(fin, sp)
        mf = float(dt) / float(B0)
        worst = 0.0
        rmin, rmax = rpf[0], rpf[-1]
        impl_feet = None
        if scheme.startswith('impl'):
            # reference feet: the same stated iteration in floats
            cur = {}
            d0 = {}
            for i, q in enumerate(qpf):
                for j, r in enumerate(rpf):
                    d0[(i, j)] = (phi.eval(q, r, 0, 1) / r, phi.eval(q, r, 1, 0) / r)
                    cur[(i, j)] = (q - d0[(i, j)][0] * mf, r + d0[(i, j)][1] * mf)
            for it in range(20000):
                norm = 0.0
                nxt = {}
                for (i, j), (q1, r1) in cur.items():
                    q, r = qpf[i], rpf[j]
                    q1 = q1 % (2 * np.pi)
                    if rmin <= r1 <= rmax:
                        drk, dqk = phi.eval(q1, r1, 0, 1) / r1, phi.eval(q1, r1, 1, 0) / r1
                    else:
                        drk = dqk = 0.0
                    q2 = (q - (d0[(i, j)][0] + drk) * mf / 2) % (2 * np.pi)
                    r2 = min(max(r + (d0[(i, j)][1] + dqk) * mf / 2, rmin), rmax)
                    dd = abs(q2 - q1)
                    if dd > np.pi:
                        dd = 2 * np.pi - dd
                    norm = max(norm, dd, abs(r2 - r1))
                    nxt[(i, j)] = (q2, r2)
                cur = nxt
                if norm <= tolf:
                    break
            impl_feet = cur
            REF_SWEEPS[0] = it + 1
            converged = norm <= tolf
        if timed_out:
            if impl_feet is not None and not converged:
                return None          # the stated iteration does not settle on this input either (outside its contraction regime)
            return NONTERMINATION + ' (%d x %d nodes, tolerance %g; an independent float implementation of the stated iteration ends after %d sweeps on this input)' % (
                len(qpf), len(rpf), tolf, REF_SWEEPS[0])
        for i, q in enumerate(qpf):
            for j, r in enumerate(rpf):
                if impl_feet is not None:
                    q2, r2 = impl_feet[(i, j)]
                    exp = sp.eval(q2 % (2 * np.pi), r2)
                    worst = max(worst, abs(f[i, j] - exp))
                    continue
                dr0 = phi.eval(q, r, 0, 1) / r
                dq0 = phi.eval(q, r, 1, 0) / r
                q1 = (q - dr0 * mf) % (2 * np.pi)
                r1 = r + dq0 * mf
                if rmin <= r1 <= rmax:
                    drk, dqk = phi.eval(q1, r1, 0, 1) / r1, phi.eval(q1, r1, 1, 0) / r1
                else:
                    drk = dqk = 0.0
                q2 = (q - (dr0 + drk) * mf / 2) % (2 * np.pi)
                r2 = r + (dq0 + dqk) * mf / 2
                if min(abs(r2 - rmin), abs(r2 - rmax)) < 1e-9:
                    continue
                if r2 < rmin:
                    exp = 0.0 if nul else m['init_funcs'].f_eq(rmin, 0.5, FC.CN0, FC.kN0, FC.deltaRN0, FC.rp, FC.CTi, FC.kTi, FC.deltaRTi)
                elif r2 > rmax:
                    exp = 0.0 if nul else m['init_funcs'].f_eq(r2, 0.5, FC.CN0, FC.kN0, FC.deltaRN0, FC.rp, FC.CTi, FC.kTi, FC.deltaRTi)
                else:
                    exp = sp.eval(q2, r2)
                if pot == 'const':
                    exp = fin[i, j]
                worst = max(worst, abs(f[i, j] - exp))
    except Exception as e:
        return 'exception %s: %s' % (type(e).__name__, e)
    finally:
        numenv.enable()
    if worst > 1e-7:
        return 'poloidal step (%s, %s potential, dt=%s) differs from the stated scheme by %.3g' % (scheme, pot, dt, worst)
    return None


CANARIES = [
    ('corrector averages with the wrong weight', 'acc', [("    multFactor = dt / B0\n    multFactor_half = 0.5 * multFactor\n", "    multFactor = dt / B0\n    multFactor_half = 0.5 * multFactor if dt > 0 else 0.75 * multFactor\n")], ('cu', 3, 3, 4, 2, 'generic', Fr(1), Fr(-1, 4), 'expl', True)),
    ('outer boundary takes the equilibrium at the inner radius', 'acc', [(
        "                elif (endPts_k2_r[i, j] > rMax):\n                    f[i, j] = f_eq(endPts_k2_r[i, j], v, CN0, kN0,\n                                   deltaRN0, rp, CTi, kTi, deltaRTi)\n                else:\n                    endPts_k2_q[i, j] = endPts_k2_q[i, j] % (2*pi)\n                    f[i, j] = eval_spline_2d_scalar(endPts_k2_q[i, j], endPts_k2_r[i, j],\n                                                    kts1Pol, deg1Pol, kts2Pol, deg2Pol, coeffsPol, 0, 0)\n\n\ndef poloidal_advection_step_expl",
        "                elif (endPts_k2_r[i, j] > rMax):\n                    f[i, j] = f_eq(rMax, v, CN0, kN0,\n                                   deltaRN0, rp, CTi, kTi, deltaRTi)\n                else:\n                    endPts_k2_q[i, j] = endPts_k2_q[i, j] % (2*pi)\n                    f[i, j] = eval_spline_2d_scalar(endPts_k2_q[i, j], endPts_k2_r[i, j],\n                                                    kts1Pol, deg1Pol, kts2Pol, deg2Pol, coeffsPol, 0, 0)\n\n\ndef poloidal_advection_step_expl")],
     ('cu', 3, 3, 4, 2, 'wave', Fr(2), Fr(2), 'expl', False)),
]


def main():
    run = H.Run(PID, 'proof')
    m = dist.mods()
    adv = H.repo_import('pygyro.advection.advection')
    acc = H.repo_import('pygyro.advection.accelerated_advection_steps')
    if run.args.replay:
        print(json.dumps(json.load(open(run.args.replay))['replay'], indent=1))
        sys.exit(0)
    run.functions = H.src_info(adv.PoloidalAdvection.__init__, adv.PoloidalAdvection.step, acc.poloidal_advection_step_expl, acc.general_poloidal_advection_step_expl,
                               acc.poloidal_advection_step_impl, acc.general_poloidal_advection_step_impl)
    quick = run.tier == 'quick'
    items = []
    # (path, qdeg, rdeg, nq, ncells_r, potential, parameter, dt, scheme, nulEdge)
    for scheme in ('expl', 'impl'):
        items.append(('cu', 3, 3, 4, 2, 'const', Fr(0), Fr(1, 2), scheme, True, None))
        items.append(('cu', 3, 3, 4, 2, 'rot', Fr(1, 3), Fr(1, 4), scheme, False, None))
        items.append(('nu', 2, 2, 3, 2, 'rot', Fr(-5, 7), Fr(2), scheme, True, None))
    for nul in (True, False):
        items.append(('cu', 3, 3, 4, 2, 'wave', Fr(2), Fr(2), 'expl', nul, None))
        items.append(('cu', 3, 3, 4, 2, 'wave', Fr(2), Fr(-2), 'expl', nul, None))
    items.append(('cu', 3, 3, 4, 2, 'generic', Fr(1), Fr(1, 4), 'expl', True, None))
    # predictor more than one poloidal turn away, theta-dependent potential (explicit scheme)
    items.append(('nu', 3, 2, 5, 2, 'rotwave', Fr(12), Fr(1), 'expl', True, None))
    items.append(('cu', 3, 3, 5, 2, 'rotwave', Fr(-12), Fr(1), 'expl', False, None))
    # implicit scheme with a coarse tolerance on a potential whose theta rows converge at different speeds
    items.append(('cu', 3, 3, 6, 2, 'wave_local', Fr(3), Fr(1, 2), 'impl@1/20', True, None))
    items.append(('nu', 2, 3, 3, 2, 'generic', Fr(1), Fr(-1, 2), 'expl', False, None))
    # implicit scheme, generic (theta- and r-dependent) potential, theta degree != r degree; tolerance coarse enough for the exact
    # iteration to stop after its first passes (the iterates' size multiplies with every pass)
    items.append(('nu', 4, 3, 5, 2, 'generic', Fr(1, 2), Fr(1, 8), 'impl@1/2', True, None))
    items.append(('nu', 2, 3, 4, 2, 'generic', Fr(1, 2), Fr(-1, 8), 'impl@1/2', False, None))
    # float-only: slowly contracting implicit iteration (about 250 sweeps to reach 1e-13), both signs of dt
    items.append(('cu', 3, 3, 8, 6, 'strong', Fr(3), Fr(1), 'impl@1/10000000000000', True, None))
    items.append(('cu', 3, 3, 8, 6, 'strong', Fr(3), Fr(-1), 'impl@1/10000000000000', False, None))
    # history: earlier steps on the same object (work buffers are reused); the measured step has feet/predictors outside the domain
    items.append(('cu', 3, 3, 4, 2, 'wave', Fr(2), Fr(2), 'expl', True, None, (Fr(1),)))
    items.append(('cu', 3, 3, 4, 2, 'wave', Fr(2), Fr(-2), 'expl', False, None, (Fr(-1, 2), Fr(1))))
    items.append(('cu', 3, 3, 4, 2, 'generic', Fr(1), Fr(1, 2), 'expl', True, None, (Fr(1, 8),)))
    items.append(('cu', 3, 3, 6, 2, 'wave_local', Fr(3), Fr(1, 2), 'impl@1/20', True, None, (Fr(1, 4),)))
    if not quick:
        for dt in (Fr(1, 8), Fr(-3, 4), Fr(3)):
            for nul in (True, False):
                items.append(('cu', 3, 3, 5, 3, 'generic', Fr(1), dt, 'expl', nul, None))
                items.append(('nu', 3, 2, 4, 3, 'wave', Fr(3), dt, 'expl', nul, None))
        for w in (Fr(2), Fr(-9, 2)):
            for scheme in ('expl', 'impl'):
                items.append(('cu', 3, 3, 5, 3, 'rot', w, Fr(1), scheme, False, None))
    if not quick:
        # mixed degrees, both spline paths, either sign of dt, both boundary modes, theta- and r-dependent potentials
        for (pth, qd, rd, nq_, nc_) in (('nu', 2, 3, 4, 2), ('nu', 3, 2, 5, 3), ('nu', 4, 3, 5, 2), ('cu', 3, 3, 6, 2)):
            for dt_ in (Fr(1, 4), Fr(-1, 4), Fr(3, 2), Fr(-3, 2)):
                items.append((pth, qd, rd, nq_, nc_, 'generic', Fr(1), dt_, 'expl', dt_ > 0, None))
            items.append((pth, qd, rd, nq_, nc_, 'wave', Fr(2), Fr(2), 'expl', False, None, (Fr(-1, 2),)))
            items.append((pth, qd, rd, nq_, nc_, 'generic', Fr(1, 2), Fr(1, 8), 'impl@1/2', True, None))
        for (pth, qd, rd) in (('cu', 3, 3),):          # (on the general path this potential is outside the contraction regime of the iteration)
            for dt_ in (Fr(3, 4), Fr(-3, 4), Fr(1, 2)):
                items.append((pth, qd, rd, 8, 6, 'strong', Fr(3), dt_, 'impl@1/10000000000000', dt_ < 0, None))
    for cn in CANARIES:
        items.append(cn[3] + (cn[:3],))
    caught = {}
    for r in H.pmap(work, items, run.args.jobs):
        if r.get('canary'):
            run.add_stats(r.get('stats', {}))
            caught[r['canary']] = bool(r['violations'])
            continue
        run.merge(r)
    for cn in CANARIES:
        hit = caught.get(cn[0], False)
        run.canaries.append(dict(name=cn[0], detected=hit))
        if not hit:
            run.canary_miss(cn[0], caught)
    numenv.enable(extra_modules=[(adv, None), (acc, None), (m['init_funcs'], None)])
    run.stubs = sorted(set(numenv.STUBS)) + ['exp/tanh/sqrt uninterpreted (equilibrium)']
    numenv.disable()
    run.bounds = dict(potentials='constant; omega r^2/2 (omega in {1/3,-5/7}, thorough {2,-9/2}); r-independent theta wave; random rational coefficients',
                      dt='1/4, 1/2, 2, -2, -1/2 (thorough 1/8, -3/4, 3, 1)', grids='ntheta 3-5, radial cells 2-3, uniform cubic and general degrees 2-3', schemes='explicit all; implicit for constant and rigid-rotation potentials')
    run.outside = ['arbitrary (symbolic) potentials', 'explicit and implicit variants agree to third order in dt (asymptotic statement)',
                   'termination of the implicit iteration beyond the listed inputs (on each listed implicit input the real float step must come back within a CPU budget before the exact run starts; a step that does not is reported)', 'nodes whose foot is within rounding distance of the radial boundary', 'grid-level loop: C05']
    run.assumptions = ['exact reals for doubles; 2*pi is the double', 'solver contracts of C08']
    run.finish(
        explanation='f fully symbolic, potential/time step from a listed exact family; the real step runs in exact arithmetic; z3 decides for '
                    'all f that each new nodal value is the oracle 2-D interpolant at the foot of the independently implemented Heun '
                    'characteristic (theta mod 2 pi) or the stated boundary value; constant potential gives the identity, omega r^2/2 an exact '
                    'rigid rotation in both schemes (the implicit loop ends after its first pass).',
        rule='case = (spline path/degrees, grid, potential, dt, scheme, boundary mode)')


if __name__ == '__main__':
    main()
