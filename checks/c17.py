"""C17 -- diagnostics and global reductions equal serial quadrature of the global field.

Real l2 / l1 / nParticles / KineticEnergy (constructors: local weight slices; evaluators), Grid.getMin/getMax and
DiagnosticCollector.collect/reduce run on every rank of a simulated process grid over object arrays of exact
proxies; the whole field is symbolic (one z3 Real per global grid point).  z3 decides
   sum over the ranks of one replica of the local diagnostic == serial trapezoid/rectangle quadrature of the global field,
min/max reported at the drawing rank == min/max of the global field (whole grid or fixed-index slice; ranks that do
not own the slice contribute the neutral element), unit field -> analytic volume factor.
"""
import itertools
import json
import sys
import time
import warnings
from fractions import Fraction as Fr

import numpy as np
import z3

from lib import symx, numenv, simmpi, dist
from lib import harness as H
from lib.symx import K, SReal, zt, toreal, ite
from checks.c07 import apply_canary, undo_canary

PID = 'C17'
TWO_PI = Fr(2 * np.pi)          # exact value of the double 2*pi, as production uses

LAY4 = {'flux_surface': [0, 3, 1, 2], 'v_parallel': [0, 2, 1, 3], 'poloidal': [3, 2, 1, 0]}
# user-defined orderings (each in a handler of its own): r not first but before v, r after v, ...
CUSTOM4 = {'cust_1023': [1, 0, 2, 3], 'cust_2103': [2, 1, 0, 3], 'cust_1203': [1, 2, 0, 3], 'cust_3012': [3, 0, 1, 2]}
ALL4 = dict(LAY4, **CUSTOM4)


def lay4_for(layout):
    """layout set of the 4-D handler that contains `layout`"""
    return {layout: CUSTOM4[layout]} if layout in CUSTOM4 else dict(LAY4)
LAY3 = [{'v_parallel_2d': [0, 2, 1], 'mode_solve': [1, 2, 0]}, {'v_parallel_1d': [0, 2, 1]}, {'poloidal': [2, 1, 0]}]


class AminShim(numenv.NPNum):
    """non-forking amin / amax for object arrays (If-based)"""

    def amin(self, a, axis=None):
        vals = list(np.ravel(np.asarray(a, dtype=object)))
        acc = vals[0]
        for v in vals[1:]:
            acc = ite(v < acc, v, acc)
        return acc

    def amax(self, a, axis=None):
        vals = list(np.ravel(np.asarray(a, dtype=object)))
        acc = vals[0]
        for v in vals[1:]:
            acc = ite(v > acc, v, acc)
        return acc


def grids_eta(shape):
    nr, nth, nz, nv = shape
    r = [Fr(1, 10) + Fr(i * i, 7) + Fr(i, 2) for i in range(nr)]             # non-uniform in r
    q = [TWO_PI * Fr(i, nth) for i in range(nth)]
    z = [Fr(3 * i, 4) for i in range(nz)]
    v = [Fr(-2) + Fr(i, 1) + Fr(i * i, 5) for i in range(nv)]                # non-uniform in v
    return r, q, z, v


def trap_weights(x):
    n = len(x)
    d = [x[i + 1] - x[i] for i in range(n - 1)]
    return [d[0] / 2] + [(d[i] + d[i - 1]) / 2 for i in range(1, n - 1)] + [d[-1] / 2]


def serial_quadrature(F, r, q, z, v, kind):
    """oracle: statement-level quadrature of the assembled global field F[r,theta,z,(v)]"""
    wr = trap_weights(r)
    dq, dz = q[2] - q[1], z[2] - z[1]
    acc = K(0)
    if v is None:
        for idx in itertools.product(*[range(n) for n in F.shape]):
            x = F[idx]
            sq = (x.re * x.re + x.im * x.im) if isinstance(x, symx.SComplex) else x * x
            acc = acc + K(wr[idx[0]] * r[idx[0]]) * sq
        return acc * K(dq * dz)
    wv = trap_weights(v)
    for idx in itertools.product(*[range(n) for n in F.shape]):
        w = K(wr[idx[0]] * r[idx[0]] * wv[idx[3]])
        f = F[idx]
        if kind == 'l2':
            acc = acc + w * (f * f)
        elif kind == 'l1':
            acc = acc + w * abs(f)
        elif kind == 'n':
            acc = acc + w * f
        elif kind == 'ke':
            acc = acc + w * K(v[idx[3]] ** 2) * f
    return acc * K(dq * dz) * (K(Fr(1, 2)) if kind == 'ke' else 1)


def volume_factor(r, q, z, v, kind):
    nth, nz = len(q), len(z)
    base = (r[-1] ** 2 - r[0] ** 2) / 2 * (q[2] - q[1]) * nth * (z[2] - z[1]) * nz
    if v is None:
        return base
    if kind == 'ke':
        wv = trap_weights(v)
        return base * sum(w * x * x for w, x in zip(wv, v)) / 2
    return base * (v[-1] - v[0])


def work(item):
    part, shape, nprocs, layout, canary = item
    res = H.worker_result()
    m = dist.mods()
    norms = H.repo_import('pygyro.diagnostics.norms')
    energy = H.repo_import('pygyro.diagnostics.energy')
    dc = H.repo_import('pygyro.diagnostics.diagnostic_collector')
    t0 = time.time()
    allm = dict(m, norms=norms, energy=energy, dc=dc)
    if canary:
        apply_canary(allm, canary)
    numenv.enable(extra_modules=[(norms, None), (energy, None), (dc, None)])
    import numpy
    saved_np = m['grid'].np
    m['grid'].np = AminShim()
    symx.set_bv(None)
    r, q, z, v = grids_eta(shape)
    nranks = int(np.prod(nprocs))
    eta = [numenv.karr(r), numenv.karr(q), numenv.karr(z), numenv.karr(v)]
    st = {}

    def sums_body(ctx):
        F = dist.symbolic_field('f', shape)
        # the potential is complex in the driver: real and imaginary parts are independent symbols
        Pre, Pim = dist.symbolic_field('pre', shape[:3]), dist.symbolic_field('pim', shape[:3])
        P = np.empty(shape[:3], dtype=object)
        for idx in itertools.product(*[range(n) for n in shape[:3]]):
            P[idx] = symx.SComplex(Pre[idx], Pim[idx])
        st.update(F=F, P=P)

        def rankfn(comm):
            with warnings.catch_warnings():
                warnings.simplefilter('ignore')
                h4 = m['layout'].getLayoutHandler(comm, lay4_for(layout), list(nprocs), eta)
                sw = m['layout'].LayoutSwapper(comm, [dict(d) for d in LAY3], [list(nprocs), nprocs[0], nprocs[1]], eta[:3], 'mode_solve')
            out = {}
            if layout in ALL4:
                g = m['grid'].Grid(eta, [None] * 4, h4, layout, comm=comm, dtype=object)
                dist.fill_grid(g, F)
                L = h4.getLayout(layout)
                out['l2'] = norms.l2(eta, L).l2NormSquared(g)
                out['l1'] = norms.l1(eta, L).l1Norm(g)
                out['n'] = norms.nParticles(eta, L).getN(g)
                out['ke'] = energy.KineticEnergy(eta, L).getKE(g)
                out['replica'] = 0
            else:
                g = m['grid'].Grid(eta[:3], [None] * 3, sw, layout, comm=comm, dtype=object)
                dist.fill_grid(g, P)
                L = sw.getLayout(layout)
                out['l2phi'] = norms.l2(eta[:3], L).l2NormSquared(g)
                # one replica = ranks whose coordinates along the process directions the layout does not use are 0
                hd = sw._managers[sw._handlers[layout]]
                big = sw._managers[sw._largestLayoutManager]
                rep = 0
                for ax, c in enumerate(big.communicators):
                    if not any(c == x for x in hd.communicators):
                        rep += big.mpiCoords[ax]
                out['replica'] = rep
            return out
        return simmpi.World(nranks).run(rankfn)

    def minmax_body(ctx):
        F = dist.symbolic_field('f', shape)
        st.update(F=F)
        fix_dim = z3.Int('fix_dim')
        ctx.assume(z3.And(fix_dim >= -1, fix_dim < 4))
        fd = int(symx.SInt(fix_dim))
        fixv = None
        if fd >= 0:
            fv = z3.Int('fix_val')
            ctx.assume(z3.And(fv >= 0, fv < shape[fd]))
            fixv = int(symx.SInt(fv))
        # optionally a second fixed axis (getMin/getMax accept sequences): fd < fd2, both indices symbolic
        fd2, fixv2 = -1, None
        if fd >= 0:
            f2 = z3.Int('fix_dim2')
            ctx.assume(z3.Or(f2 == -1, z3.And(f2 > fd, f2 < 4)))
            fd2 = int(symx.SInt(f2))
            if fd2 >= 0:
                fv2 = z3.Int('fix_val2')
                ctx.assume(z3.And(fv2 >= 0, fv2 < shape[fd2]))
                fixv2 = int(symx.SInt(fv2))
        st.update(fd=fd, fixv=fixv, fd2=fd2, fixv2=fixv2)

        def rankfn(comm):
            h4 = m['layout'].getLayoutHandler(comm, lay4_for(layout), list(nprocs), eta)
            g = m['grid'].Grid(eta, [None] * 4, h4, layout, comm=comm, dtype=object)
            dist.fill_grid(g, F)
            if fd < 0:
                return g.getMin(0), g.getMax(0)
            if fd2 < 0:
                return g.getMin(0, fd, fixv), g.getMax(0, fd, fixv)
            return g.getMin(0, [fd, fd2], [fixv, fixv2]), g.getMax(0, [fd, fd2], [fixv, fixv2])
        return simmpi.World(nranks).run(rankfn)

    def collector_body(ctx):
        """concrete exact field (min/max inside collect() use ndarray.min(), which compares elements), symbolic step index"""
        F = dist.concrete_field(shape, seed=5)
        P = dist.concrete_field(shape[:3], seed=6)
        st.update(F=F, P=P)
        k = z3.Int('step')
        save_step = 3
        ctx.assume(z3.And(k >= 0, k < 7))
        kk = int(symx.SInt(k))
        st['k'] = kk

        def rankfn(comm):
            with warnings.catch_warnings():
                warnings.simplefilter('ignore')
                h4 = m['layout'].getLayoutHandler(comm, lay4_for(layout), list(nprocs), eta)
                sw = m['layout'].LayoutSwapper(comm, [dict(d) for d in LAY3], [list(nprocs), nprocs[0], nprocs[1]], eta[:3], 'v_parallel_2d')
            g = m['grid'].Grid(eta, [None] * 4, h4, 'v_parallel', comm=comm, dtype=object)
            ph = m['grid'].Grid(eta[:3], [None] * 3, sw, 'v_parallel_2d', comm=comm, dtype=object)
            dist.fill_grid(g, F)
            dist.fill_grid(ph, P)
            dt = K(Fr(1, 2))
            col = dc.DiagnosticCollector(comm, save_step, dt, g, ph)
            col.collect(g, ph, dt * kk)
            col.reduce()
            if comm.Get_rank() == 0:
                return dict(diag=col.diagnostics, l2phi=col.l2PhiResult, l2g=col.l2GridResult, l1=col.l1Result, n=col.nPartResult,
                            mn=col.min_val, mx=col.max_val, ke=col.KE_val)
            return None
        return simmpi.World(nranks).run(rankfn)

    body = dict(sums=sums_body, minmax=minmax_body, collector=collector_body)[part]
    for ctx, (kind, val) in symx.explore(body, timeout_ms=60000, index_cap=16):
        if kind != 'ok':
            if kind == 'abort' and not val.inconclusive:
                continue
            res['obligations'] += 1
            if kind == 'exc' and not isinstance(val, NotImplementedError):
                prob = float_replay(allm, item, st)
                if prob:
                    res['violations'].append(('diag:%s:exception' % part, '%s: %s / %s' % (type(val).__name__, str(val)[:120], prob),
                                              dict(kind='diag', item=str(item[:4]), concrete=prob)))
                    continue
            res['inconclusive'].append('%s: %s %r' % (part, kind, val))
            continue
        bad = []
        names = []
        if part == 'sums':
            F, P = st['F'], st['P']
            if layout in ALL4:
                for kname in ('l2', 'l1', 'n', 'ke'):
                    tot = K(0)
                    for o in val:
                        tot = tot + o[kname]
                    bad.append(toreal(zt(tot)) != toreal(zt(serial_quadrature(F, r, q, z, v, kname))))
                    names.append(kname)
            else:
                tot = K(0)
                for o in val:
                    if o['replica'] == 0:
                        tot = tot + o['l2phi']
                bad.append(toreal(zt(tot)) != toreal(zt(serial_quadrature(P, r, q, z, None, 'l2'))))
                names.append('l2phi')
        elif part == 'minmax':
            F, fd, fixv, fd2, fixv2 = st['F'], st['fd'], st['fixv'], st['fd2'], st['fixv2']
            sel = F if fd < 0 else np.take(F, fixv, axis=fd)
            if fd2 >= 0:
                sel = np.take(sel, fixv2, axis=fd2 - 1)
            vals = [toreal(zt(x)) for x in np.ravel(sel)]
            rmin, rmax = val[0]
            if isinstance(rmin, float) or isinstance(rmax, float):
                bad.append(z3.BoolVal(True))
                names.append('drawing rank received the neutral element only')
            else:
                tmin, tmax = toreal(zt(rmin)), toreal(zt(rmax))
                # characterisation of min / max: a bound of every selected element and equal to one of them
                bad.append(z3.Or(z3.Or([tmin > x for x in vals]), z3.And([tmin != x for x in vals])))
                names.append('min fix=%s/%s %s/%s' % (fd, fixv, fd2, fixv2))
                bad.append(z3.Or(z3.Or([tmax < x for x in vals]), z3.And([tmax != x for x in vals])))
                names.append('max fix=%s/%s %s/%s' % (fd, fixv, fd2, fixv2))
        else:
            F, P, k = st['F'], st['P'], st['k']
            out = val[0]
            slot = k % 3
            exp = dict(l2g=serial_quadrature(F, r, q, z, v, 'l2'), l1=serial_quadrature(F, r, q, z, v, 'l1'), n=serial_quadrature(F, r, q, z, v, 'n'),
                       ke=serial_quadrature(F, r, q, z, v, 'ke'), l2phi=serial_quadrature(P, r, q, z, None, 'l2'))
            fl = [symx.fval(x) for x in np.ravel(F)]
            for kname in ('l1', 'n', 'ke'):
                if symx.fval(out[kname][slot]) != symx.fval(exp[kname]):
                    bad.append(z3.BoolVal(True))
                    names.append('collector %s in slot %d' % (kname, slot))
            for kname in ('l2g', 'l2phi'):
                got = out[kname][slot]          # sqrt applied on rank 0
                sq = exp[kname]
                ok = (isinstance(got, symx.SNum) and got.c is not None and got.c * got.c == symx.fval(sq)) or \
                     (isinstance(got, symx.SNum) and got.c is None and z3.eq(z3.simplify(got.t), z3.simplify(symx.uf('sqrt', sq).t)))
                if not ok:
                    bad.append(z3.BoolVal(True))
                    names.append('collector %s in slot %d' % (kname, slot))
            if symx.fval(out['mn'][slot]) != min(fl) or symx.fval(out['mx'][slot]) != max(fl):
                bad.append(z3.BoolVal(True))
                names.append('collector min/max')
            if symx.fval(out['diag'][0, slot]) != Fr(k, 2):
                bad.append(z3.BoolVal(True))
                names.append('time not in slot step mod saveStep')
        res['obligations'] += 1
        if not bad:
            res['discharged'] += 1
            res['nontrivial'].append('%s|%r|%s' % (part, item[1:4], len(ctx.decisions)))
            continue
        cache = {}
        r_ = ctx.check(z3.Or([symx.abstract_nonlinear(z3.simplify(b), cache) for b in bad]))
        if r_ != 'unsat':
            r_ = ctx.check(z3.Or(bad))
        if r_ == 'unsat':
            res['discharged'] += 1
            res['nontrivial'].append('%s|%r|%s' % (part, item[1:4], ''.join('T' if d['choice'] else 'F' for d in ctx.decisions[-6:])))
            if len(res['samples']) < 1:
                res['samples'].append(dict(part=part, shape=list(shape), nprocs=list(nprocs), layout=layout, facts=names))
        elif r_ == 'sat':
            mdl = ctx.model()
            hits = [n for n, b in zip(names, bad) if z3.is_true(mdl.eval(b, model_completion=True))]
            if part == 'minmax':
                try:
                    st['Fd'] = np.array([float(Fr(symx.model_value(mdl, x))) for x in np.ravel(st['F'])]).reshape(shape)
                except Exception:
                    st['Fd'] = None
            prob = float_replay(allm, item, st)
            if not prob and part == 'minmax' and st.get('Fd') is not None:
                st['Fd'] = None
                prob = float_replay(allm, item, st)
            rep = dict(kind='diag', item=str(item[:4]), facts=hits, concrete=prob, canary=bool(canary), fix=[st.get('fd'), st.get('fixv'), st.get('fd2'), st.get('fixv2')])
            if prob:
                res['violations'].append(('diag:%s' % part, '%s (%s)' % (prob, hits[:2]), rep))
            else:
                res['inconclusive'].append('diagnostic model does not reproduce in floats: %r' % rep)
        else:
            res['inconclusive'].append('unknown diagnostic query %r' % (item[:4],))
    m['grid'].np = saved_np
    numenv.disable()
    if canary:
        undo_canary(None)
    res['stats'] = symx.GLOBAL.as_dict()
    symx.GLOBAL.__init__()
    res['wall'] = round(time.time() - t0, 2)
    res['canary'] = canary[0] if canary else None
    return res


def float_replay(allm, item, st):
    """real float code on every rank (pristine numpy) against a serial numpy quadrature of a random field"""
    part, shape, nprocs, layout, _ = item
    m = allm
    numenv.disable()
    shim = m['grid'].np
    import numpy
    m['grid'].np = numpy
    try:
        r, q, z, v = [np.array([float(x) for x in a]) for a in grids_eta(shape)]
        eta = [r, q, z, v]
        rng = np.random.RandomState(11)
        Fd = rng.rand(*shape) * 2 - 1
        Pd = (rng.rand(*shape[:3]) * 2 - 1) + 1j * (rng.rand(*shape[:3]) * 2 - 1)
        wr = np.array([float(x) for x in trap_weights(list(map(Fr, r)))]) * r
        wv = np.array([float(x) for x in trap_weights(list(map(Fr, v)))])
        dqdz = (q[2] - q[1]) * (z[2] - z[1])
        ref = dict(l2=np.einsum('rtzv,r,v->', Fd * Fd, wr, wv) * dqdz, l1=np.einsum('rtzv,r,v->', np.abs(Fd), wr, wv) * dqdz,
                   n=np.einsum('rtzv,r,v->', Fd, wr, wv) * dqdz, ke=0.5 * np.einsum('rtzv,r,v->', Fd, wr, wv * v * v) * dqdz,
                   l2phi=np.einsum('rtz,r->', (Pd * Pd.conj()).real, wr) * dqdz)
        nranks = int(np.prod(nprocs))
        fd, fixv, fd2, fixv2 = st.get('fd', -1), st.get('fixv'), st.get('fd2', -1), st.get('fixv2')
        if part == 'minmax' and st.get('Fd') is not None:
            Fd = st['Fd']           # the solver's field

        def rankfn(comm):
            with warnings.catch_warnings():
                warnings.simplefilter('ignore')
                h4 = m['layout'].getLayoutHandler(comm, lay4_for(layout), list(nprocs), eta)
                sw = m['layout'].LayoutSwapper(comm, [dict(d) for d in LAY3], [list(nprocs), nprocs[0], nprocs[1]], eta[:3], 'mode_solve')
            out = {}
            lay = layout if layout in ALL4 else 'v_parallel'
            g = m['grid'].Grid(eta, [None] * 4, h4, lay, comm=comm)
            dist.fill_grid(g, Fd)
            L = h4.getLayout(lay)
            out['l2'] = m['norms'].l2(eta, L).l2NormSquared(g)
            out['l1'] = m['norms'].l1(eta, L).l1Norm(g)
            out['n'] = m['norms'].nParticles(eta, L).getN(g)
            out['ke'] = m['energy'].KineticEnergy(eta, L).getKE(g)
            if part == 'collector':
                with warnings.catch_warnings():
                    warnings.simplefilter('ignore')
                    sw2 = m['layout'].LayoutSwapper(comm, [dict(d) for d in LAY3], [list(nprocs), nprocs[0], nprocs[1]], eta[:3], 'v_parallel_2d')
                ph = m['grid'].Grid(eta[:3], [None] * 3, sw2, 'v_parallel_2d', comm=comm, dtype=np.complex128)
                dist.fill_grid(ph, Pd)
                col = m['dc'].DiagnosticCollector(comm, 3, 0.5, g, ph)
                kk = st.get('k', 1)
                col.collect(g, ph, 0.5 * kk)
                col.reduce()
                if comm.Get_rank() == 0:
                    out['slot_time'] = float(col.diagnostics[0, kk % 3])
                    out['slot_n'] = float(col.nPartResult[kk % 3])
            if part == 'minmax':
                if fd is None or fd < 0:
                    out['mn'], out['mx'] = g.getMin(0), g.getMax(0)
                elif fd2 is not None and fd2 >= 0:
                    out['mn'], out['mx'] = g.getMin(0, [fd, fd2], [fixv, fixv2]), g.getMax(0, [fd, fd2], [fixv, fixv2])
                else:
                    out['mn'], out['mx'] = g.getMin(0, fd, fixv), g.getMax(0, fd, fixv)
            if layout not in ALL4:
                ph = m['grid'].Grid(eta[:3], [None] * 3, sw, layout, comm=comm, dtype=np.complex128)
                dist.fill_grid(ph, Pd)
                out['l2phi'] = m['norms'].l2(eta[:3], sw.getLayout(layout)).l2NormSquared(ph)
                hd = sw._managers[sw._handlers[layout]]
                big = sw._managers[sw._largestLayoutManager]
                rep = 0
                for ax, c in enumerate(big.communicators):
                    if not any(c == x for x in hd.communicators):
                        rep += big.mpiCoords[ax]
                out['replica'] = rep
            return out
        outs = simmpi.World(nranks).run(rankfn)
        probs = []
        if part in ('sums', 'collector'):
            keys = ['l2', 'l1', 'n', 'ke'] if layout in ALL4 or part == 'collector' else ['l2phi']
            for kname in keys:
                tot = sum(o[kname] for o in outs if kname != 'l2phi' or o.get('replica', 0) == 0)
                if abs(tot - ref[kname]) > 1e-9 * max(1.0, abs(ref[kname])):
                    probs.append('sum over ranks of %s = %.12g but serial quadrature = %.12g (grid %s, layout %s)' % (kname, tot, ref[kname], list(nprocs), layout))
        if part == 'collector':
            kk = st.get('k', 1)
            if outs[0]['slot_time'] != 0.5 * kk or abs(outs[0]['slot_n'] - ref['n']) > 1e-9 * max(1.0, abs(ref['n'])):
                probs.append('collector: step %d (t=%s, dt=0.5) not stored in slot %d' % (kk, 0.5 * kk, kk % 3))
        if part == 'minmax':
            sel = Fd if (fd is None or fd < 0) else np.take(Fd, fixv, axis=fd)
            if fd2 is not None and fd2 >= 0:
                sel = np.take(sel, fixv2, axis=fd2 - 1)
            if outs[0]['mn'] != sel.min() or outs[0]['mx'] != sel.max():
                probs.append('min/max at drawing rank (%s,%s) differ from global (%s,%s) for fixed dim %s index %s%s (grid %s, layout %s)' % (
                    outs[0]['mn'], outs[0]['mx'], sel.min(), sel.max(), fd, fixv, '' if fd2 is None or fd2 < 0 else ' and dim %s index %s' % (fd2, fixv2), list(nprocs), layout))
        return probs[0] if probs else None
    except Exception as e:
        return 'exception %s: %s' % (type(e).__name__, e)
    finally:
        m['grid'].np = shim
        numenv.enable()


# ----------------------------------------------------------------------------- IEEE-754 part: the time-slot expression
def slot_expression(dc):
    """the expression assigned to `ti` in DiagnosticCollector.collect, from the current source"""
    import ast
    import inspect
    import textwrap
    src = textwrap.dedent(inspect.getsource(dc.DiagnosticCollector.collect))
    tree = ast.parse(src)
    for node in ast.walk(tree):
        if isinstance(node, ast.Assign) and isinstance(node.targets[0], ast.Name) and node.targets[0].id == 'ti':
            return node.value, ast.get_source_segment(src, node.value)
    raise AssertionError('assignment to ti not found in collect()')


FLOORDIV_MAX = 16          # candidates for a floor-divided quotient (the slot items use at most 12 steps)


def fp_term(node, t, dt):
    """binary64 semantics of the expression (round = ties-to-even like Python, int = truncation)"""
    import ast
    F = z3.Float64()
    if isinstance(node, ast.Name) and node.id == 't':
        return t
    if isinstance(node, ast.Attribute) and node.attr == 'dt':
        return dt
    if isinstance(node, ast.BinOp) and isinstance(node.op, ast.Div):
        return z3.fpDiv(z3.RNE(), fp_term(node.left, t, dt), fp_term(node.right, t, dt))
    if isinstance(node, ast.BinOp) and isinstance(node.op, ast.FloorDiv):
        # CPython float floor division of non-negative operands: fmod is exact, so a // b is floor of the EXACT quotient.
        # Decided without rounding by comparing a with n*b in binary128 (both conversions and the products n*b, n small, are exact).
        a, b = fp_term(node.left, t, dt), fp_term(node.right, t, dt)
        Q = z3.FPSort(15, 113)
        A, B = z3.fpFPToFP(z3.RNE(), a, Q), z3.fpFPToFP(z3.RNE(), b, Q)
        out = z3.fpNaN(F)
        for n in range(FLOORDIV_MAX, -1, -1):
            lo = z3.fpMul(z3.RNE(), z3.FPVal(float(n), Q), B)
            hi = z3.fpMul(z3.RNE(), z3.FPVal(float(n + 1), Q), B)
            out = z3.If(z3.And(z3.fpGEQ(A, lo), z3.fpLT(A, hi)), z3.FPVal(float(n), F), out)
        return out
    if isinstance(node, ast.Call) and isinstance(node.func, ast.Name) and node.func.id == 'round' and len(node.args) == 1:
        return z3.fpRoundToIntegral(z3.RNE(), fp_term(node.args[0], t, dt))
    if isinstance(node, ast.Call) and isinstance(node.func, ast.Name) and node.func.id == 'int' and len(node.args) == 1:
        return z3.fpRoundToIntegral(z3.RTZ(), fp_term(node.args[0], t, dt))
    raise NotImplementedError('no binary64 encoding for %s' % ast.dump(node)[:80])


def slot_fp_item(item):
    """for ALL doubles dt in [2^-7, 4]: after k steps of t += dt the slot expression gives k (QF_FP, bit-precise)"""
    k, tmo = item
    res = H.worker_result()
    H.install_fake_mpi()
    dc = H.repo_import('pygyro.diagnostics.diagnostic_collector')
    node, text = slot_expression(dc)
    F = z3.Float64()
    dt = z3.FP('dt', F)
    t = z3.FPVal(0.0, F)
    for _ in range(k):
        t = z3.fpAdd(z3.RNE(), t, dt)
    res['obligations'] += 1
    try:
        term = fp_term(node, t, dt)
    except NotImplementedError as e:
        res['inconclusive'].append('time-slot expression %r: %s' % (text, e))
        return res
    s = z3.Solver()
    s.set('timeout', tmo)
    s.add(z3.fpGEQ(dt, z3.FPVal(2.0 ** -7, F)), z3.fpLEQ(dt, z3.FPVal(4.0, F)))
    s.add(z3.Not(z3.fpEQ(term, z3.FPVal(float(k), F))))
    t0 = time.time()
    r = str(s.check())
    res['stats'] = dict(queries=1, solver_s=round(time.time() - t0, 2), **{r: 1})
    if r == 'unsat':
        res['discharged'] += 1
        res['nontrivial'].append('slot_fp|%d' % k)
        res['samples'].append(dict(part='time slot, binary64', expression=text, steps=k, verdict='holds for every double dt in [2^-7, 4]'))
    elif r == 'sat':
        m = s.model()
        dtv = float(eval(str(m[dt]).replace('*(2**', '*(2.0**'))) if False else None
        fpv = m[dt]
        import struct
        bits = (fpv.sign_as_bv().as_long() if hasattr(fpv.sign_as_bv(), 'as_long') else 0, fpv.exponent_as_long(True), fpv.significand_as_long())
        dtv = (-1.0 if fpv.sign() else 1.0) * (1.0 + fpv.significand_as_long() / 2.0 ** 52) * 2.0 ** (fpv.exponent_as_long(True) - 1023)
        # replay with python floats through the real expression
        tt = 0.0
        for _ in range(k):
            tt += dtv

        class S:
            pass
        S.dt = dtv
        import ast
        got = eval(compile(ast.Expression(node), '<slot>', 'eval'), dict(t=tt, self=S, round=round, int=int))
        rep = dict(kind='slot_fp', expression=text, dt=repr(dtv), steps=k, t=repr(tt), slot_index=got)
        if got != k:
            res['violations'].append(('diag:time_slot_float', 'step %d with dt=%r (t=%r): %s gives %r: the diagnostics of this step overwrite another slot' % (k, dtv, tt, text, got), rep))
        else:
            res['inconclusive'].append('binary64 model does not reproduce: %r' % rep)
    else:
        res['inconclusive'].append('time-slot binary64 query: %s (k=%d)' % (r, k))
    return res


CANARIES = [
    ('radial weights taken from local index 0', 'norms', [("        mydrMult = drMult[layout.starts[idx_r]:layout.ends[idx_r]]\n\n        if (layout.ndims == 4):",
                                                           "        mydrMult = drMult[0:layout.ends[idx_r]-layout.starts[idx_r]]\n\n        if (layout.ndims == 4):")], 'sums'),
    ('rank without the slice sends 0 instead of +inf', 'grid', [("                else:\n                    return self.global_comm.reduce(np.inf, op=MPI.MIN, root=drawingRank)",
                                                                "                else:\n                    return self.global_comm.reduce(0.0, op=MPI.MIN, root=drawingRank)")], 'minmax'),
]


def main():
    run = H.Run(PID, 'proof')
    m = dist.mods()
    norms = H.repo_import('pygyro.diagnostics.norms')
    energy = H.repo_import('pygyro.diagnostics.energy')
    dc = H.repo_import('pygyro.diagnostics.diagnostic_collector')
    if run.args.replay:
        print(json.dumps(json.load(open(run.args.replay))['replay'], indent=1))
        sys.exit(0)
    G = m['grid'].Grid
    run.functions = H.src_info(norms.l2.__init__, norms.l2.l2NormSquared, norms.l1.__init__, norms.l1.l1Norm, norms.nParticles.__init__,
                               norms.nParticles.getN, energy.KineticEnergy.__init__, energy.KineticEnergy.getKE, dc.DiagnosticCollector.__init__,
                               dc.DiagnosticCollector.collect, dc.DiagnosticCollector.reduce, G.getMin, G.getMax)
    quick = run.tier == 'quick'
    shape = (3, 3, 3, 3)
    grids = [(1, 1), (2, 1), (1, 2), (2, 2)] if quick else [(a, b) for a in (1, 2, 3) for b in (1, 2, 3)]
    items = []
    for grid in grids:
        for lay in list(LAY4) + ['v_parallel_2d', 'mode_solve', 'v_parallel_1d', 'poloidal']:
            if lay == 'poloidal' and False:
                continue
            items.append(('sums', shape, grid, lay, None))
        for lay in (['v_parallel', 'flux_surface'] if quick else list(LAY4) + ['cust_1203']):
            items.append(('minmax', (3, 2, 3, 2), grid, lay, None))
        items.append(('collector', shape, grid, 'v_parallel', None))
    # user-defined orderings of the four dimensions
    for lay in (['cust_1023', 'cust_2103'] if quick else list(CUSTOM4)):
        for grid in ([(2, 2)] if quick else [(2, 2), (1, 2), (3, 1)]):
            items.append(('sums', shape, grid, lay, None))
    items.append(('minmax', (3, 2, 3, 2), (2, 2), 'cust_1203', None))
    if not quick:
        # extents not divisible by the process counts, different in every direction
        for shp in ((5, 4, 4, 3), (4, 3, 5, 4)):
            for grid in ((2, 2), (3, 2), (2, 3)):
                for lay in list(LAY4) + ['cust_1203', 'cust_2103']:
                    items.append(('sums', shp, grid, lay, None))
                items.append(('collector', shp, grid, 'v_parallel', None))
        for grid in ((2, 2), (3, 2)):
            for lay in list(LAY4) + ['cust_1203']:
                items.append(('minmax', (4, 2, 3, 3), grid, lay, None))          # (larger fields: the min/max queries run out of time)
    for cn in CANARIES:
        items.append((cn[3], shape if cn[3] == 'sums' else (3, 2, 3, 2), (2, 2), 'v_parallel', cn[:3]))
    # unit field -> analytic volume factor (exact rational identity evaluated through the real classes on rank (1,1))
    caught = {}
    for r in H.pmap(work, items, run.args.jobs):
        if r.get('canary'):
            run.add_stats(r.get('stats', {}))
            caught[r['canary']] = bool(r['violations'])
            continue
        run.merge(r)
    for cn in CANARIES:
        hit = caught.get(cn[0], False)
        run.canaries.append(dict(name=cn[0], detected=hit))
        if not hit:
            run.canary_miss(cn[0], caught)
    for r in H.pmap(slot_fp_item, [(k, 150000) for k in ((3, 6, 7) if quick else range(1, 13))], run.args.jobs):
        run.merge(r)
    unit_field(run, m, norms, energy)
    numenv.enable(extra_modules=[(norms, None), (energy, None), (dc, None)])
    run.stubs = sorted(set(numenv.STUBS)) + ['pygyro.model.grid np.amin/amax -> If-based non-forking fold', 'mpi4py.MPI: lib/simmpi (reduce/Reduce contract)']
    numenv.disable()
    run.bounds = dict(extents=list(shape), thorough_extents='(5,4,4,3), (4,3,5,4) for sums and collector on (2,2),(3,2),(2,3); min/max up to (4,2,3,3)', grids=[list(g) for g in grids], layouts='3 4-D layouts + 4 3-D layouts of the driver swapper')
    run.outside = ['time slot in binary64: proved only for t accumulated by t += dt over <= 7 (thorough 12) steps and dt in [2^-7, 4]', 'rounding / reduction order',
                   'min/max inside collect() use ndarray.min() (element comparisons): exercised with a concrete exact field, not a symbolic one',
                   'complex phi (object arrays; conj is the identity on reals)']
    run.assumptions = ['exact reals for doubles; theta grid built from the double 2*pi as production does',
                       'replicated layouts: one replica = the ranks of the layout handler\'s communicators (upstream convention)']
    run.finish(
        explanation='Whole field symbolic; real diagnostic classes on every simulated rank; z3 decides equality of the sum over ranks with '
                    'the serial quadrature (polynomial identities in the field values), of reported min/max with the global min/max '
                    '(fixed-index slices and ranks without data included, fixed dimension/index forked by the solver), and the '
                    'collector writes each quantity to slot step mod saveStep.',
        rule='case = (part, extents, process grid, layout) x feasible path (fixed dimension / index / step)')


def unit_field(run, m, norms, energy):
    """field == 1 gives the analytic volume factor (exact identity in Q)"""
    numenv.enable(extra_modules=[(norms, None), (energy, None)])
    shape = (4, 3, 3, 4)
    r, q, z, v = grids_eta(shape)
    eta = [numenv.karr(r), numenv.karr(q), numenv.karr(z), numenv.karr(v)]
    ones = np.empty(shape, dtype=object)
    ones[...] = K(1)
    for nprocs in [(1, 1), (2, 2)]:
        def rankfn(comm):
            h4 = m['layout'].getLayoutHandler(comm, dict(LAY4), list(nprocs), eta)
            g = m['grid'].Grid(eta, [None] * 4, h4, 'v_parallel', comm=comm, dtype=object)
            dist.fill_grid(g, ones)
            L = h4.getLayout('v_parallel')
            return (norms.l2(eta, L).l2NormSquared(g), norms.l1(eta, L).l1Norm(g), norms.nParticles(eta, L).getN(g), energy.KineticEnergy(eta, L).getKE(g))
        ctx = symx.Ctx()
        symx.Ctx.cur = ctx
        outs = simmpi.World(int(np.prod(nprocs))).run(rankfn)
        for i, kname in enumerate(['l2', 'l1', 'n', 'ke']):
            tot = sum((symx.fval(o[i]) for o in outs), Fr(0))
            run.obligations += 1
            if tot == volume_factor(r, q, z, v, kname):
                run.discharged += 1
                run.nontrivial.add('unit|%s|%s' % (kname, nprocs))
            else:
                run.violation('diag:unit_field', 'unit field: %s sums to %s, analytic volume factor %s' % (kname, float(tot), float(volume_factor(r, q, z, v, kname))),
                              dict(kind='unit', quantity=kname, nprocs=list(nprocs)))
    numenv.disable()


if __name__ == '__main__':
    main()
