"""C18 -- checkpoints and restart (partial).

Decided here:
 (a) hyperslab tiling: the write slices of all ranks of a process grid P tile the dataset and every read slice of a
     different grid P' lies inside it -- for all extents (unbounded Int), from the real Layout tables.
 (b) latest-checkpoint selection: the real statements of setups.setupFromFile / Grid.loadFromFile that pick the file
     (`max(list_of_files)`, `int(name.split('_')[-1].split('.')[0])`) are extracted from the current source and executed
     on *symbolic file names*: the writer's own format expression runs on a symbolic time whose __format__ captures the
     format spec; names compare lexicographically on the zero-padded decimal rendering (one digit variable per position).
     z3 is asked for checkpoint times for which the selected time is not the largest.
 (c) driver control: fullSimulation.main runs with every pygyro class, argparse, time, os, open/print replaced by
     recording stubs; saveStep, start time, end time are symbolic Ints, the clock an arbitrary non-decreasing sequence:
     no exception on any path; each iteration performs the same operator sequence; the final time is checkpointed
     exactly once; a restart resumes at the time of the checkpoint (so N steps + restart + M steps == N+M steps).
Not decided: bit-exact HDF5 I/O (h5py is a C library without MPI-IO here), constants printer/parser round trip.
"""
import ast
import glob as _glob
import importlib.util
import inspect
import itertools
import json
import os
import sys
import tempfile
import textwrap
import time as _time
import types
import warnings

import numpy as np
import z3

from lib import symx, symnp, simmpi
from lib import harness as H
from lib import layoutsym as LS
from lib.symx import SInt, SReal, zt

PID = 'C18'
MAXD = 8


# ----------------------------------------------------------------------------- (a) tiling
def tiling_item(item):
    p_w, p_r = item
    res = H.worker_result()
    real, lay = LS.modules()
    symx.set_bv(None)

    def body(ctx):
        n = z3.Int('n')
        ctx.assume(n >= max(p_w, p_r))
        eta = [symnp.SymLen(symx.SInt(n))]
        W = [lay.Layout('w', [p_w], [0], eta, [k]) for k in range(p_w)]
        R = [lay.Layout('r', [p_r], [0], eta, [k]) for k in range(p_r)]
        return n, W, R
    for ctx, (kind, val) in symx.explore(body, timeout_ms=20000):
        if kind != 'ok':
            res['inconclusive'].append('tiling %s %r' % (kind, val))
            continue
        n, W, R = val
        bad = [zt(W[0].starts[0]) != 0, zt(W[-1].ends[0]) != n]
        for a, b in zip(W[:-1], W[1:]):
            bad.append(zt(a.ends[0]) != zt(b.starts[0]))
        for L in W + R:
            bad.append(z3.Or(zt(L.starts[0]) < 0, zt(L.ends[0]) > n, zt(L.starts[0]) >= zt(L.ends[0])))
            bad.append(zt(L.fullShape[0]) != n)
        # the read blocks of the other grid tile as well, so that together they fetch every element exactly once
        bad += [zt(R[0].starts[0]) != 0, zt(R[-1].ends[0]) != n]
        for a, b in zip(R[:-1], R[1:]):
            bad.append(zt(a.ends[0]) != zt(b.starts[0]))
        res['obligations'] += 1
        r = ctx.check(z3.Or(bad))
        if r == 'unsat':
            res['discharged'] += 1
            res['nontrivial'].append('tiling|%d|%d' % (p_w, p_r))
        elif r == 'sat':
            nv = ctx.model().eval(n, model_completion=True).as_long()
            res['violations'].append(('tiling', 'write slices of %d ranks / read slices of %d ranks do not tile an extent of %d' % (p_w, p_r, nv),
                                      dict(kind='tiling', p_w=p_w, p_r=p_r, n=nv)))
        else:
            res['inconclusive'].append('unknown tiling query')
    res['stats'] = symx.GLOBAL.as_dict()
    symx.GLOBAL.__init__()
    return res


# ----------------------------------------------------------------------------- (b) file selection
def ndigits(t):
    e = z3.IntVal(1)
    for k in range(1, MAXD + 1):
        e = z3.If(t >= 10 ** k, k + 1, e)
    return e


class SymTime:
    """symbolic checkpoint time handed to the writer's format expression"""

    def __init__(self, t):
        self.t = t
        self.specs = []

    def __format__(self, spec):
        return '\x00T%d:%s\x00' % (id(self) % 10 ** 9, spec)


REG = {}


class SymName:
    """file name produced by the writer's own format string for a symbolic time; ordering = str ordering"""

    def __init__(self, rendered, tvar, width):
        self.rendered = rendered        # template with the marker where the digits go
        self.t = tvar
        self.width = width

    @staticmethod
    def from_format(fmt_expr_result, symtime):
        marker = [m for m in fmt_expr_result.split('\x00') if m.startswith('T')]
        assert len(marker) == 1, fmt_expr_result
        spec = marker[0].split(':', 1)[1]
        assert spec.startswith('0') and spec[1:].isdigit(), 'unexpected format spec %r' % spec
        return SymName(fmt_expr_result, symtime.t, int(spec))

    def parts(self):
        pre, _, post = self.rendered.split('\x00')
        return pre, post

    def length(self):
        d = ndigits(self.t)
        return z3.If(d > self.width, d, z3.IntVal(self.width))

    def _lex_lt(self, o):
        """self < o as strings (same prefix/suffix assumed checked by caller)"""
        cases = []
        for l1 in range(self.width, MAXD + 1):
            for l2 in range(o.width, MAXD + 1):
                def sym(t, l, i):
                    return (t / (10 ** (l - 1 - i))) % 10 if i < l else z3.IntVal(-1)      # -1: the '.' that follows the digits sorts below digits
                lt = z3.BoolVal(False)
                for i in reversed(range(min(l1, l2) + 1)):
                    a, b = sym(self.t, l1, i), sym(o.t, l2, i)
                    lt = z3.If(a < b, True, z3.If(a > b, False, lt))
                cases.append(z3.And(self.length() == l1, o.length() == l2, lt))
        return z3.Or(cases)

    def __lt__(self, o):
        assert self.parts() == o.parts()
        return symx.mkbool(z3.simplify(self._lex_lt(o)))

    def __gt__(self, o):
        return o.__lt__(self)

    # what the parser does with the name
    def split(self, sep):
        pre, post = self.parts()
        if sep == '_':
            head = pre.split('_')
            return head[:-1] + [SymTail(self, head[-1], post)]
        raise NotImplementedError(sep)


class SymTail:
    def __init__(self, name, pre, post):
        self.name, self.pre, self.post = name, pre, post

    def split(self, sep):
        assert sep == '.' and self.pre == '' and self.post.startswith('.'), (self.pre, self.post)
        return [SymDigits(self.name)] + self.post[1:].split('.')


class SymDigits:
    def __init__(self, name):
        self.name = name


def sym_int(x):
    if isinstance(x, SymDigits):
        return SInt(x.name.t)
    return int(x)


def extract_block(func, must_contain):
    """source text of the innermost statement list of `func` containing all the given snippets (taken from the current file)"""
    src = textwrap.dedent(inspect.getsource(func))
    tree = ast.parse(src)
    best = None
    for node in ast.walk(tree):
        for field in ('body', 'orelse'):
            stmts = getattr(node, field, None)
            if isinstance(stmts, list) and stmts and isinstance(stmts[0], ast.stmt):
                text = '\n'.join(ast.get_source_segment(src, s) for s in stmts)
                if all(m in text for m in must_contain):
                    if best is None or len(text) < len(best[1]):
                        best = (stmts, text)
    assert best is not None, 'statements not found: %r' % (must_contain,)
    return best


def extract_if(func, must_contain):
    """the innermost `if` statement of `func` whose source contains all snippets"""
    src = textwrap.dedent(inspect.getsource(func))
    tree = ast.parse(src)
    best = None
    for node in ast.walk(tree):
        if isinstance(node, ast.If):
            text = ast.get_source_segment(src, node)
            if all(m in text for m in must_contain):
                if best is None or len(text) < len(best[1]):
                    best = (node, text)
    assert best is not None, 'if statement not found: %r' % (must_contain,)
    return best


class SymTimeArg(SInt):
    """a requested checkpoint time: an int proxy that also records how it is formatted into a file name"""
    __slots__ = ()

    def __format__(self, spec):
        return '\x00T%d:%s\x00' % (id(self) % 10 ** 9, spec)


def requested_item(item):
    """Grid.loadFromFile(folder, time=<requested>): the checkpoint opened must be the requested one (time 0 included)"""
    nfiles, = item
    res = H.worker_result()
    H.install_fake_mpi()
    gridmod = H.repo_import('pygyro.model.grid')
    symx.set_bv(None)
    fmt = writer_format(gridmod)
    node, text = extract_if(gridmod.Grid.loadFromFile, ['glob(', 'max(list_of_files', 'else'])
    code = compile(ast.Module(body=[node], type_ignores=[]), '<loadFromFile selection>', 'exec')
    st = {}

    def body(ctx):
        ts = [z3.Int('t%d' % i) for i in range(nfiles)]
        for t in ts:
            ctx.assume(z3.And(t >= 0, t < 10 ** MAXD))
        ctx.assume(z3.Distinct(*ts))
        req = z3.Int('requested')
        ctx.assume(z3.Or([req == t for t in ts]))
        names = []
        for t in ts:
            stime = SymTime(t)
            names.append(SymName.from_format(eval(fmt, dict(foldername='run', nameConvention='grid', time=stime)), stime))
        st.update(ts=ts, req=req)

        class OS:
            class path:
                exists = staticmethod(lambda f: True)
        env = dict(glob=lambda pattern: list(names), max=max, len=len, int=sym_int, foldername='run', nameConvention='grid', os=OS,
                   time=SymTimeArg(req))
        exec(code, env)
        return env['filename']

    for ctx, (kind, val) in symx.explore(body, timeout_ms=30000):
        if kind != 'ok':
            if kind == 'abort' and not val.inconclusive:
                continue
            res['inconclusive'].append('requested-time selection: %s %r' % (kind, val))
            continue
        res['obligations'] += 1
        if isinstance(val, str):
            ok = '\x00T' in val           # the name was built from the requested time by the writer's format
            if ok:
                res['discharged'] += 1
                res['nontrivial'].append('requested|%d|%s' % (nfiles, ''.join('T' if d['choice'] else 'F' for d in ctx.decisions)))
            else:
                res['inconclusive'].append('file name %r does not contain the requested time' % val)
            continue
        # a SymName: the code fell back to "latest"; it must still be the requested time
        r = ctx.check(val.t != st['req'])
        if r == 'unsat':
            res['discharged'] += 1
        elif r == 'sat':
            m = ctx.model()
            times = [m.eval(t, model_completion=True).as_long() for t in st['ts']]
            rq = m.eval(st['req'], model_completion=True).as_long()
            got = replay_requested(times, rq)
            rep = dict(kind='requested', times=times, requested=rq, opened=got)
            if got != rq:
                res['violations'].append(('selection:requested_time', 'loadFromFile(folder, time=%d) with checkpoints %s opens the checkpoint of t=%s' % (rq, times, got), rep))
            else:
                res['inconclusive'].append('requested-time model does not reproduce: %r' % rep)
        else:
            res['inconclusive'].append('unknown requested-time query')
    res['stats'] = symx.GLOBAL.as_dict()
    symx.GLOBAL.__init__()
    return res


def replay_requested(times, rq):
    gridmod = H.repo_import('pygyro.model.grid')
    fmt = writer_format(gridmod)
    node, _ = extract_if(gridmod.Grid.loadFromFile, ['glob(', 'max(list_of_files', 'else'])
    code = compile(ast.Module(body=[node], type_ignores=[]), '<replay>', 'exec')
    base = os.path.join(H.VERIF, 'scratch')
    with tempfile.TemporaryDirectory(prefix='c18_', dir=base if os.path.isdir(base) else None) as d:
        for t in times:
            open(eval(fmt, dict(foldername=d, nameConvention='grid', time=t)), 'w').close()
        env = dict(glob=_glob.glob, foldername=d, nameConvention='grid', os=os, time=rq)
        exec(code, env)
        return int(os.path.basename(env['filename']).split('_')[-1].split('.')[0])


def writer_format(gridmod):
    """the writer's file-name expression, taken from Grid.writeH5Dataset"""
    src = textwrap.dedent(inspect.getsource(gridmod.Grid.writeH5Dataset))
    tree = ast.parse(src)
    for node in ast.walk(tree):
        if isinstance(node, ast.Assign) and isinstance(node.targets[0], ast.Name) and node.targets[0].id == 'filename':
            return ast.get_source_segment(src, node.value)
    raise AssertionError('writer format not found')


def selection_item(item):
    which, nfiles = item
    res = H.worker_result()
    H.install_fake_mpi()
    gridmod = H.repo_import('pygyro.model.grid')
    setups = H.repo_import('pygyro.initialisation.setups')
    symx.set_bv(None)
    fmt = writer_format(gridmod)
    if which == 'setupFromFile':
        stmts, text = extract_block(setups.setupFromFile, ['glob(', 'max(list_of_files', 'int('])
    else:
        stmts, text = extract_block(gridmod.Grid.loadFromFile, ['glob(', 'max(list_of_files'])
    code = compile(ast.Module(body=stmts, type_ignores=[]), '<%s selection block>' % which, 'exec')
    st = {}

    def body(ctx):
        ts = [z3.Int('t%d' % i) for i in range(nfiles)]
        for t in ts:
            ctx.assume(z3.And(t >= 0, t < 10 ** MAXD))
        ctx.assume(z3.Distinct(*ts))
        names = []
        for t in ts:
            stime = SymTime(t)
            rendered = eval(fmt, dict(foldername='run', nameConvention='grid', time=stime))
            names.append(SymName.from_format(rendered, stime))
        st['ts'] = ts
        # modification times are unrelated to the times in the names (checkpoints can be rewritten, copied, restored): arbitrary
        mts = [z3.Int('mtime%d' % i) for i in range(nfiles)]
        for mt in mts:
            ctx.assume(z3.And(mt >= 0, mt < 10 ** 6))
        ctx.assume(z3.Distinct(*mts))
        st['mts'] = mts

        def mtime(nm):
            for nm_, mt in zip(names, mts):
                if nm_ is nm:
                    return symx.SInt(mt)
            return os.path.getmtime(nm)
        fpath = types.SimpleNamespace(**{k: getattr(os.path, k) for k in dir(os.path) if not k.startswith('_')})
        fpath.getmtime = fpath.getctime = fpath.getatime = mtime
        fos = types.SimpleNamespace(**{k: getattr(os, k) for k in ('sep', 'getcwd', 'listdir')})
        fos.path = fpath
        env = dict(glob=lambda pattern: list(names), max=max, min=min, sorted=sorted, len=len, int=sym_int, foldername='run', nameConvention='grid', os=fos)
        exec(code, env)
        return env

    for ctx, (kind, val) in symx.explore(body, timeout_ms=30000):
        if kind != 'ok':
            if kind == 'abort' and not val.inconclusive:
                continue
            res['inconclusive'].append('selection: %s %r' % (kind, val))
            continue
        ts = st['ts']
        res['obligations'] += 1
        if which == 'setupFromFile':
            sel = zt(val['t'])
        else:
            sel = val['filename'].t
        r = ctx.check(z3.Or([sel < t for t in ts]))
        if r == 'unsat':
            res['discharged'] += 1
            res['nontrivial'].append('sel|%s|%d|%s' % (which, nfiles, ''.join('T' if d['choice'] else 'F' for d in ctx.decisions)))
        elif r == 'sat':
            m = ctx.model()
            times = [m.eval(t, model_completion=True).as_long() for t in ts]
            mtv = [m.eval(mt, model_completion=True).as_long() for mt in st['mts']]
            got = replay_selection(which, times, mtv)
            rep = dict(kind='selection', which=which, times=times, modification_order=mtv, selected=got)
            if got != max(times):
                res['violations'].append(('selection:lexicographic_max', '%s: checkpoints at times %s: the code resumes from t=%s, not from %s' % (which, times, got, max(times)), rep))
            else:
                res['inconclusive'].append('selection model does not reproduce: %r' % rep)
        else:
            res['inconclusive'].append('unknown selection query')
    res['stats'] = symx.GLOBAL.as_dict()
    symx.GLOBAL.__init__()
    return res


def replay_selection(which, times, mtimes=None):
    """real files on disk (names produced by the writer's format), real statements"""
    gridmod = H.repo_import('pygyro.model.grid')
    setups = H.repo_import('pygyro.initialisation.setups')
    fmt = writer_format(gridmod)
    if which == 'setupFromFile':
        stmts, _ = extract_block(setups.setupFromFile, ['glob(', 'max(list_of_files', 'int('])
    else:
        stmts, _ = extract_block(gridmod.Grid.loadFromFile, ['glob(', 'max(list_of_files'])
    code = compile(ast.Module(body=stmts, type_ignores=[]), '<replay>', 'exec')
    with tempfile.TemporaryDirectory(prefix='c18_', dir=os.path.join(H.VERIF, 'scratch') if os.path.isdir(os.path.join(H.VERIF, 'scratch')) else None) as d:
        for k_, t in enumerate(times):
            fn_ = eval(fmt, dict(foldername=d, nameConvention='grid', time=t))
            open(fn_, 'w').close()
            if mtimes is not None:
                os.utime(fn_, (10 ** 9 + 60 * mtimes[k_], 10 ** 9 + 60 * mtimes[k_]))
        env = dict(glob=_glob.glob, foldername=d, nameConvention='grid', os=os)
        exec(code, env)
        if which == 'setupFromFile':
            return env['t']
        return int(os.path.basename(env['filename']).split('_')[-1].split('.')[0])


# ----------------------------------------------------------------------------- (c) driver
TRACE = []


class Rec:
    def __init__(self, name):
        self._n = name

    def __getattr__(self, k):
        if k.startswith('__'):
            raise AttributeError(k)

        def f(*a, **kw):
            TRACE.append((self._n, k, tuple(x for x in a if isinstance(x, (int, str, symx.Sym)))))
            return Rec(self._n + '.' + k)
        return f


class LayoutStub:
    shape = (2, 2, 2, 2)
    nprocs = [1, 1]


class GridStub(Rec):
    currentLayout = 'v_parallel'
    eta_grid = [np.arange(4.)] * 4

    def getLayout(self, n):
        return LayoutStub()

    def get2DSpline(self):
        return None

    def getSpline(self, i):
        return None


class CommStub:
    def __init__(self, rank):
        self.r = rank

    def Get_rank(self):
        return self.r

    def Get_size(self):
        return 4

    def allreduce(self, x, op=None):
        return x

    def Barrier(self):
        pass


SCEN = {}
_DRIVER = {}


def load_driver():
    """fullSimulation.py from the working tree, with every collaborator replaced by a recording stub"""
    if _DRIVER:
        return _DRIVER['fs']
    saved = {k: sys.modules.get(k) for k in list(sys.modules) if k == 'argparse' or k.startswith('pygyro') or k.startswith('mpi4py')}

    def mkmod(name, **attrs):
        m = types.ModuleType(name)
        m.__dict__.update(attrs)
        sys.modules[name] = m
        return m

    def cls(name):
        return lambda *a, **k: (TRACE.append((name, '__init__', ())), Rec(name))[1]
    MPI = types.ModuleType('mpi4py.MPI')
    MPI.LAND = 'LAND'
    MPI.Comm = CommStub
    MPI.COMM_WORLD = CommStub(0)
    mp = mkmod('mpi4py')
    mp.MPI = MPI
    sys.modules['mpi4py.MPI'] = MPI

    def setupFromFile(*a, **k):
        TRACE.append(('setupFromFile',))
        return GridStub('f'), SCEN['constants'], SCEN['t0']

    def setupCylindricalGrid(*a, **k):
        TRACE.append(('setupCylindricalGrid',))
        return GridStub('f'), SCEN['constants'], 0
    mkmod('pygyro')
    for sub in ['diagnostics', 'utilities', 'poisson', 'advection', 'initialisation', 'model']:
        mkmod('pygyro.' + sub)
    mkmod('pygyro.diagnostics.diagnostic_collector', DiagnosticCollector=cls('diag'))
    mkmod('pygyro.utilities.savingTools', setupSave=lambda c, f: (TRACE.append(('setupSave',)), f or 'simulation_0')[1])
    mkmod('pygyro.poisson.poisson_solver', DensityFinder=cls('density'), QuasiNeutralitySolver=cls('qn'))
    mkmod('pygyro.advection.advection', FluxSurfaceAdvection=cls('flux'), VParallelAdvection=cls('vpar'), PoloidalAdvection=cls('pol'), ParallelGradient=cls('pgrad'))
    mkmod('pygyro.initialisation.setups', setupCylindricalGrid=setupCylindricalGrid, setupFromFile=setupFromFile)
    mkmod('pygyro.model.grid', Grid=cls('grid'))
    mkmod('pygyro.model.layout', LayoutSwapper=cls('swapper'), getLayoutHandler=cls('handler'))

    class AP:
        def __init__(self, **k):
            pass

        def add_argument(self, *a, **k):
            pass

        def parse_args(self):
            return SCEN['args']
    mkmod('argparse', ArgumentParser=AP)
    spec = importlib.util.spec_from_file_location('fullsim_under_test', os.path.join(H.REPO, 'fullSimulation.py'))
    fs = importlib.util.module_from_spec(spec)
    spec.loader.exec_module(fs)

    class FakeFile:
        def write(self, s):
            pass

        def close(self):
            pass
    fs.open = lambda *a, **k: FakeFile()
    fs.print = lambda *a, **k: None
    fs.int = symx.symint
    _DRIVER.update(fs=fs, MPI=MPI, saved=saved)
    return fs


class NS:
    pass


def driver_item(item):
    loadable, rank, K, SVAL = item
    res = H.worker_result()
    fs = load_driver()
    MPI = _DRIVER['MPI']
    symx.set_bv(None)
    st = {}

    def body(ctx):
        del TRACE[:]
        S, tEnd, t0v = z3.Int('saveStep'), z3.Int('tEnd'), z3.Int('t0')
        # saveStep is enumerated (one work item per value): output_time*saveStep would otherwise be a non-linear term
        ctx.assume(z3.And(S == SVAL, t0v >= 0, t0v % 2 == 0, tEnd >= 0, tEnd / 2 - t0v / 2 <= K, t0v <= 8))
        if not loadable:
            ctx.assume(t0v == 0)
        a = NS()
        a.foldername = ['fold' if loadable else '']
        a.constantFile = ['c.json']
        a.saveStep = [SVAL]
        a.tEnd = [SInt(tEnd)]
        a.tMax = [SReal(z3.Real('tMax'))]
        c = NS()
        c.dt = 2
        c.npts = [4, 4, 4, 4]
        SCEN.update(args=a, constants=c, t0=SInt(t0v) if loadable else 0)
        st.update(S=S, tEnd=tEnd, t0=t0v)
        clock = [z3.RealVal(0)]

        def faketime():
            t = z3.Real(ctx.fresh_name('clk'))
            ctx.assume(t >= clock[0])
            clock[0] = t
            return SReal(t)
        MPI.COMM_WORLD = CommStub(rank)
        oi, oe, om, ot = os.path.isdir, os.path.exists, os.mkdir, _time.time
        os.path.isdir = lambda p: (loadable if p in ('fold',) else (False if p == 'timing' else oi(p)))
        os.path.exists = lambda p: (loadable if 'initParams' in str(p) else oe(p))
        os.mkdir = lambda p: None
        _time.time = faketime
        try:
            fs.main()
        finally:
            os.path.isdir, os.path.exists, os.mkdir, _time.time = oi, oe, om, ot
        return list(TRACE)

    canonical = None
    for ctx, (kind, val) in symx.explore(body, timeout_ms=20000, maxpaths=20000):
        if kind == 'abort':
            if val.inconclusive:
                res['inconclusive'].append('driver abort %s' % val.why)
            continue
        res['obligations'] += 1
        mdl = ctx.model() if ctx.check() == 'sat' else None
        vals = {k: mdl.eval(st[k], model_completion=True).as_long() for k in ('S', 'tEnd', 't0')} if mdl is not None else {}
        if kind == 'exc':
            prob = replay_driver(loadable, rank, vals) if vals else None
            rep = dict(kind='driver', loadable=loadable, rank=rank, scenario=vals, symbolic='%s: %s' % (type(val).__name__, val), concrete=prob)
            cls_ = 'first_iteration_is_a_save_step' if isinstance(val, ZeroDivisionError) else type(val).__name__
            if prob:
                res['violations'].append(('driver:%s' % cls_, '%s (saveStep=%s, start time %s, end time %s, %s run)' % (
                    prob, vals.get('S'), vals.get('t0'), vals.get('tEnd'), 'restarted' if loadable else 'fresh'), rep))
            else:
                res['inconclusive'].append('driver exception on the model only: %r' % rep)
            continue
        trace = val
        probs = analyse_trace(trace, loadable, ctx, st)
        if canonical is None and probs.get('iteration') is not None:
            canonical = probs['iteration']
        if probs.get('iteration') is not None and canonical is not None and probs['iteration'] != canonical:
            probs['problems'].append('iterations perform different operator sequences')
        if probs['problems']:
            res['violations'].append(('driver:trace', '%s (scenario %s)' % (probs['problems'][0], vals), dict(kind='driver', loadable=loadable, scenario=vals, problems=probs['problems'])))
        else:
            res['discharged'] += 1
            res['nontrivial'].append('driver|%s|%d|%s' % (loadable, rank, ''.join('T' if d['choice'] else 'F' for d in ctx.decisions)))
            if len(res['samples']) < 1:
                res['samples'].append(dict(part='driver', loadable=loadable, scenario=vals, iterations=probs['n_iter'], checkpoints=probs['writes'][:6]))
    res['stats'] = symx.GLOBAL.as_dict()
    symx.GLOBAL.__init__()
    return res


def analyse_trace(trace, loadable, ctx, st):
    """per-path facts: iterations, their operator sequences, checkpoints written"""
    problems = []
    collects = [e for e in trace if e[:2] == ('diag', 'collect')]
    writes = [e for e in trace if e[0] == 'f' and e[1] == 'writeH5Dataset']
    # iterations = segments between consecutive collects
    idx = [i for i, e in enumerate(trace) if e[:2] == ('diag', 'collect')]
    segs = []
    for a, b in zip(idx[:-1], idx[1:]):
        seg = [(e[0], e[1], tuple(x for x in e[2] if isinstance(x, str))) for e in trace[a + 1:b]
               if e[0] not in ('diag',) and e[1] not in ('writeH5Dataset',)]
        segs.append(seg)
    n_iter = len(collects) - 1
    it = None
    if segs:
        it = segs[0]
        for s in segs[1:]:
            if s != it:
                problems.append('iterations perform different operator sequences')
                break
    # times: collect k happens at t0 + 2k
    t0 = zt(SCEN['t0']) if loadable else z3.IntVal(0)
    bad = []
    for k, e in enumerate(collects):
        tt = e[2][0] if e[2] else None
        if tt is None:
            problems.append('collect without time')
            continue
        bad.append(zt(tt) != t0 + 2 * k)
    tfinal = t0 + 2 * n_iter
    wt = [zt(e[2][1]) for e in writes if len(e[2]) >= 2]
    if len(wt) != len(writes):
        problems.append('checkpoint written without folder/time')
    # the final time is on disk exactly once (for a restarted run with no iteration it is the checkpoint it started from)
    need = not (loadable and n_iter == 0)
    if need:
        count = z3.Sum([z3.If(w == tfinal, 1, 0) for w in wt]) if wt else z3.IntVal(0)
        bad.append(count != 1)
    else:
        if wt:
            bad.append(z3.Or([w != tfinal for w in wt]))
    # no checkpoint is written for a time that was not reached, none twice
    for i, w in enumerate(wt):
        bad.append(z3.Or(w < t0, w > tfinal, (w - t0) % 2 != 0))
        for w2 in wt[i + 1:]:
            bad.append(w == w2)
    # the run ends at tEnd unless the clock stopped it
    if bad:
        r = ctx.check(z3.Or(bad))
        if r == 'sat':
            problems.append('checkpoint/collect times wrong: final time not checkpointed exactly once, or a time written twice / out of range')
        elif r != 'unsat':
            problems.append('unknown')
    return dict(problems=problems, iteration=it, n_iter=n_iter, writes=[str(w) for w in wt])


def replay_driver(loadable, rank, vals):
    """the same stubs with concrete arguments and a concrete clock (python floats/ints only)"""
    fs = load_driver()
    MPI = _DRIVER['MPI']
    a = NS()
    a.foldername = ['fold' if loadable else '']
    a.constantFile = ['c.json']
    a.saveStep = [vals['S']]
    a.tEnd = [vals['tEnd']]
    a.tMax = [10 ** 9]
    c = NS()
    c.dt = 2
    c.npts = [4, 4, 4, 4]
    SCEN.update(args=a, constants=c, t0=vals['t0'] if loadable else 0)
    MPI.COMM_WORLD = CommStub(rank)
    oi, oe, om = os.path.isdir, os.path.exists, os.mkdir
    os.path.isdir = lambda p: (loadable if p in ('fold',) else (False if p == 'timing' else oi(p)))
    os.path.exists = lambda p: (loadable if 'initParams' in str(p) else oe(p))
    os.mkdir = lambda p: None
    saved_int = fs.int
    fs.int = int
    ctxsave = symx.Ctx.cur
    try:
        del TRACE[:]
        fs.main()
        return None
    except Exception as e:
        return 'driver raises %s: %s' % (type(e).__name__, e)
    finally:
        fs.int = saved_int
        os.path.isdir, os.path.exists, os.mkdir = oi, oe, om
        symx.Ctx.cur = ctxsave


# ----------------------------------------------------------------------------- (d) constants file: key order and expressions
CONST_FILES = {
    # name -> list of (key, numeric root or expression string); roots become symbolic reals
    'chain3': [('deltaRTi', None), ('deltaRTe', 'deltaRTi'), ('deltaRN0', '2.0*deltaRTe'), ('deltaR', '4.0*deltaRN0/deltaRTi'), ('vMax', None), ('vMin', '-vMax')],
    'mixed': [('R0', None), ('zMax', 'R0*2*pi'), ('kTi', None), ('kTe', 'kTi'), ('CTi', None), ('CTe', '(CTi+kTe)*2')],
    'chain4': [('B0', None), ('eps', 'B0/4'), ('eps0', 'eps-1'), ('kN0', 'eps0*eps0'), ('dt', None)],
    # names ending in e / E directly in front of an operator
    'enames': [('kTi', None), ('kTe', 'kTi'), ('CTe', 'kTe-0.25'), ('deltaRTi', None), ('deltaRTe', 'deltaRTi*2'), ('deltaR', 'deltaRTe+deltaRTi')],
}


def _tokens(expr):
    import re
    return set(re.split(r'[+*/\-()]', expr.replace(' ', '')))


def constants_item(item):
    """real get_constants / eval_expr on a stubbed json.load: the numeric roots are symbolic reals, the ORDER in which the
    entries are consumed is chosen by the solver (one path per feasible order), expressions are evaluated by the real
    eval_expr (str(value) of a proxy is a registered identifier, so the real string substitution + eval run unchanged).
    z3 decides, per order, that every constant of the file has the value of its expression over the roots and that
    constants absent from the file have their library defaults."""
    import math
    fname, canary = item
    res = H.worker_result()
    cmod = H.repo_import('pygyro.initialisation.constants')
    dmod = H.repo_import('pygyro.initialisation.default_constants')
    t0 = _time.time()
    if canary:
        from checks.c07 import apply_canary
        apply_canary(dict(cmod=cmod), canary)
    entries = CONST_FILES[fname]
    keys = [k for k, _ in entries]
    n = len(entries)
    reg = {}
    old_str = symx.SNum.__str__

    def naming_str(self):
        name = 'symv%d' % len(reg)
        reg[name] = self
        setattr(cmod, name, self)
        return name
    st = {}

    class FakeJson:
        @staticmethod
        def load(f):
            return st['data']

    def body(ctx):
        roots = {}
        vals = {}
        for k, e in entries:
            if e is None:
                v = z3.Real('c_' + k)
                ctx.assume(z3.And(v >= 1, v <= 9))
                roots[k] = symx.SReal(v)
        # consumption order = order of popitem() = reverse of the insertion order of the dict that json.load returns
        perm = []
        for i in range(n):
            pv = z3.Int('ord%d' % i)
            ctx.assume(z3.And(pv >= 0, pv < n))
            for q in perm:
                ctx.assume(pv != q[0])
            perm.append((pv, int(symx.SInt(pv))))
        order = [keys[j] for _, j in perm]
        data = {}
        for k in reversed(order):
            e = dict(entries)[k]
            data[k] = roots[k] if e is None else e
        st['data'] = data
        st['order'] = order
        consts = cmod.get_constants('constants.json')
        return roots, consts

    import builtins
    saved_open = cmod.__dict__.get('open', None)

    class FakeFile:
        def __enter__(self): return self
        def __exit__(self, *a): return False

    class FakeIntegrate:
        # scipy.integrate.quad (only used for the normalisation constant CN0, which is not part of the claim): any value
        @staticmethod
        def quad(*a, **k):
            return (2.0, 0.0)

    real_integrate = cmod.integrate
    import json as _json

    def patch():
        cmod.open = lambda *a, **k: FakeFile()
        cmod.json = FakeJson
        cmod.integrate = FakeIntegrate
        symx.SNum.__str__ = naming_str
        symx.SNum.__repr__ = naming_str

    def unpatch():
        symx.SNum.__str__ = old_str
        symx.SNum.__repr__ = old_str
        cmod.json = _json
        cmod.integrate = real_integrate
        if 'open' in vars(cmod):
            del cmod.open

    def replay(order):
        unpatch()
        try:
            return replay_constants(fname, order, canary)
        finally:
            patch()
    patch()
    env = dict(pi=symx.K(symx.rationalise(math.pi)))
    try:
        for ctx, (kind, val) in symx.explore(body, timeout_ms=20000, index_cap=16, maxpaths=1000):
            if len(res['violations']) >= 3:
                break               # a few confirmed witnesses are enough; the remaining orders are not walked
            if kind == 'abort':
                if val.inconclusive:
                    res['inconclusive'].append('constants abort %s %s' % (val.why, fname))
                continue
            res['obligations'] += 1
            order = st.get('order')
            if kind == 'exc':
                prob = replay(order)
                if prob:
                    res['violations'].append(('constants:exception', '%s: %s / %s' % (type(val).__name__, str(val)[:100], prob), dict(kind='constants', file=fname, order=order)))
                else:
                    res['inconclusive'].append('constants: exception on the model only %r (%s, order %s)' % (val, fname, order))
                continue
            roots, consts = val
            exp = {}

            def value_of(k):
                if k in exp:
                    return exp[k]
                e = dict(entries)[k]
                if e is None:
                    exp[k] = roots[k]
                else:
                    names = {kk: value_of(kk) for kk in keys if kk != k and kk in _tokens(e)}
                    exp[k] = eval(e, dict(env), names)
                return exp[k]
            bad, where = [], []
            for k in keys:
                got = getattr(consts, k)
                want = value_of(k)
                if not isinstance(got, symx.SNum):
                    bad.append(z3.BoolVal(True))
                else:
                    bad.append(symx.toreal(symx.zt(got)) != symx.toreal(symx.zt(symx.K(want) if not isinstance(want, symx.SNum) else want)))
                where.append(k)
            for k, dv in dmod.defaults.items():
                if k not in keys and getattr(consts, k) != dv:
                    bad.append(z3.BoolVal(True))
                    where.append('default ' + k)
            r_ = ctx.check(z3.Or(bad))
            if r_ == 'unsat':
                res['discharged'] += 1
                res['nontrivial'].append('constants|%s|%s' % (fname, ','.join(order)))
            elif r_ == 'sat':
                mdl = ctx.model()
                hits = [w for w, b in zip(where, bad) if z3.is_true(mdl.eval(b, model_completion=True))]
                prob = replay(order)
                rep = dict(kind='constants', file=fname, order=order, constants=hits, concrete=prob, canary=bool(canary))
                if prob:
                    res['violations'].append(('constants:order', '%s (file %s, keys consumed in the order %s)' % (prob, fname, order), rep))
                else:
                    res['inconclusive'].append('constants model does not reproduce: %r' % rep)
            else:
                res['inconclusive'].append('unknown constants query %s' % fname)
    finally:
        unpatch()
        for name in reg:
            if hasattr(cmod, name):
                delattr(cmod, name)
    if canary:
        from checks.c07 import undo_canary
        undo_canary(None)
    res['stats'] = symx.GLOBAL.as_dict()
    symx.GLOBAL.__init__()
    res['wall'] = round(_time.time() - t0, 2)
    res['canary'] = canary[0] if canary else None
    return res


class _FakeH5:
    """in-memory stand-in for the h5py calls of Grid.writeH5Dataset / loadFromFile / setupFromFile: one dataset with
    attributes per file name, shared by all simulated ranks (what a parallel HDF5 file is to its writers)"""

    def __init__(self):
        self.files = {}
        fake = self

        class Attrs(dict):
            def create(self, name, data, shape=None, dtype=None):
                self[name] = np.array(data)

        class DSet:
            def __init__(self, shape, dtype):
                self.data = np.zeros(tuple(int(x) for x in shape), dtype=dtype)
                self.attrs = Attrs()

            def __setitem__(self, key, val):
                self.data[key] = val

            def __getitem__(self, key):
                return self.data[key]

        class File:
            def __init__(self, name, mode='r', **kw):
                self.name, self.mode = name, mode
                if mode == 'w':
                    fake.files.setdefault(name, {})
                elif name not in fake.files:
                    raise OSError('no such file %s' % name)

            def create_dataset(self, name, shape, dtype=None):
                d = fake.files[self.name]
                if name not in d:               # every rank opens the same parallel file
                    d[name] = DSet(shape, dtype)
                return d[name]

            def __getitem__(self, name):
                return fake.files[self.name][name.lstrip('/')]

            def close(self):
                pass
        self.File = File
        self.h5t = types.SimpleNamespace(STD_I32BE='i4')

    def glob(self, pattern):
        pre = pattern.rstrip('*')
        return [n for n in self.files if n.startswith(pre)]


def h5_item(item):
    """concrete part: the real Grid.writeH5Dataset on P simulated ranks, then the real loadFromFile on P2 ranks, on an in-memory
    HDF5 stand-in: the recorded 'Layout' attribute is the ordering of the layout written, the dataset is the global field in
    that ordering, and reloading (into grids distributed differently) reproduces the field"""
    nd, layouts, lay, P, P2 = item
    res = H.worker_result()
    H.install_fake_mpi()
    real = H.repo_import('pygyro.model.layout')
    gm = H.load_copy('pygyro.model.grid', 'pygyro.model._h5_grid_%d_%s_%s_%s' % (nd, lay, 'x'.join(map(str, P)), 'x'.join(map(str, P2))))
    fake = _FakeH5()
    gm.h5py = fake
    gm.glob = fake.glob
    gm.os = types.SimpleNamespace(path=types.SimpleNamespace(exists=lambda f: f in fake.files))
    shape = (5, 4, 6, 3)[:nd]
    eta = [np.arange(n, dtype=float) for n in shape]
    G = np.arange(int(np.prod(shape)), dtype=float).reshape(shape) * 0.5 + 1.0
    order = list(layouts[lay])
    res['obligations'] += 1
    probs = []

    def block(L, field):
        sl = tuple(slice(int(a), int(b)) for a, b in zip(L.starts, L.ends))
        return np.transpose(field, L.dims_order)[sl]
    try:
        def writer(comm):
            h = real.getLayoutHandler(comm, dict(layouts), list(P), eta)
            g = gm.Grid(eta, [None] * nd, h, lay, comm=comm)
            g.getAllData()[...] = block(h.getLayout(lay), G)
            g.writeH5Dataset('folder', 4)
            g.getAllData()[...] = block(h.getLayout(lay), G * 3)
            g.writeH5Dataset('folder', 12)
            return True
        simmpi.World(int(np.prod(P))).run(writer)
        for t, fld in ((4, G), (12, G * 3)):
            d = fake.files['folder/grid_%06d.h5' % t]['dset']
            if list(np.array(d.attrs['Layout'])) != order:
                probs.append("the 'Layout' attribute of the checkpoint is %s, the layout written is %s %s" % (list(np.array(d.attrs['Layout'])), lay, order))
            if d.data.shape != tuple(shape[k] for k in order) or not np.array_equal(d.data, np.transpose(fld, order)):
                probs.append('the dataset of the checkpoint at t=%d is not the global field in the ordering %s' % (t, order))

        def reader(comm):
            h = real.getLayoutHandler(comm, dict(layouts), list(P2), eta)
            g = gm.Grid(eta, [None] * nd, h, lay, comm=comm)
            out = []
            g.getAllData()[...] = -1.0          # the storage holds something else before the load
            g.loadFromFile('folder')
            out.append(np.array_equal(g.getAllData(), block(h.getLayout(lay), G * 3)))
            g.loadFromFile('folder', 4)
            out.append(np.array_equal(g.getAllData(), block(h.getLayout(lay), G)))
            # the loaded field is the grid's field from then on: it survives a layout change
            other = [k for k in layouts if k != lay][0]
            with warnings.catch_warnings():
                warnings.simplefilter('ignore')
                g.setLayout(other)
            out.append(np.array_equal(g.getAllData(), block(h.getLayout(other), G)))
            return out
        for rk, (a, b, c_) in enumerate(simmpi.World(int(np.prod(P2))).run(reader)):
            if not c_:
                probs.append('rank %d of %s: after loading a checkpoint and changing the layout the grid no longer holds the loaded field' % (rk, list(P2)))
            if not a:
                probs.append('rank %d of %s: loading the latest checkpoint does not reproduce the field written by %s processes' % (rk, list(P2), list(P)))
            if not b:
                probs.append('rank %d of %s: loading the requested checkpoint (t=4) does not reproduce the field' % (rk, list(P2)))
    except Exception as e:
        probs.append('%s: %s' % (type(e).__name__, str(e)[:200]))
    if probs:
        res['violations'].append(('checkpoint:roundtrip', '%s (layout %s, written on %s, read on %s)' % (probs[0], lay, list(P), list(P2)), dict(kind='h5', item=str(item), problems=probs[:4])))
    else:
        res['discharged'] += 1
        res['nontrivial'].append('h5|%s|%s|%s' % (lay, P, P2))
    return res


def restart_domain_item(item):
    """concrete part: the coordinate grids and knots a restart (setupFromFile) builds equal those of the fresh set-up
    (setupCylindricalGrid) for the same constants, with a domain that is asymmetric in every direction"""
    res = H.worker_result()
    H.install_fake_mpi()
    setups = H.load_copy('pygyro.initialisation.setups', 'pygyro.initialisation._restart_domain_setups')
    cmod = H.repo_import('pygyro.initialisation.constants')
    rec = []

    class FakeGrid:
        def __init__(self, eta_grids, bsplines, remapper, layout, comm=None, **k):
            rec.append(([np.array(e, dtype=float) for e in eta_grids], [np.array(b.knots, dtype=float) for b in bsplines]))

        def setLayout(self, *a):
            pass
    setups.Grid = FakeGrid
    setups.getLayoutHandler = lambda *a, **k: types.SimpleNamespace()
    for nm in ('initialise_flux_surface', 'initialise_poloidal', 'initialise_v_parallel'):
        setattr(setups, nm, lambda *a, **k: None)
    setups.glob = lambda pattern: []

    def consts(*a):
        c = cmod.Constants()
        c.npts = [8, 8, 8, 8]
        c.rMin, c.rMax, c.zMin, c.zMax, c.vMin, c.vMax = 0.7, 9.3, 2.5, 31.0, -3.0, 7.0
        return c
    setups.get_constants = consts
    setups.Constants = consts

    class Comm:
        def Get_size(self): return 1
        def Get_rank(self): return 0
    res['obligations'] += 1
    try:
        setups.setupCylindricalGrid('v_parallel', constantFile='x', comm=Comm())
        setups.setupFromFile('nowhere', layout='v_parallel', comm=Comm())
        (e1, k1), (e2, k2) = rec[0], rec[1]
        bad = [d for d in range(4) if e1[d].shape != e2[d].shape or not np.array_equal(e1[d], e2[d]) or k1[d].shape != k2[d].shape or not np.array_equal(k1[d], k2[d])]
        if bad:
            res['violations'].append(('restart:domain', 'a restart builds other coordinates / knots than the fresh set-up in direction(s) %s for the domain r [0.7,9.3], z [2.5,31], v [-3,7] (e.g. first points %s vs %s)' % (
                bad, e1[bad[0]][:2], e2[bad[0]][:2]), dict(kind='restart_domain', directions=bad)))
        else:
            res['discharged'] += 1
            res['nontrivial'].append('restart_domain')
    except Exception as e:
        res['violations'].append(('restart:domain', '%s: %s' % (type(e).__name__, str(e)[:200]), dict(kind='restart_domain')))
    return res


def printer_item(item):
    """the saved parameter file: str(constants) (the text setupSave writes) read back by get_constants reproduces every public
    constant.  Several constants are symbolic reals (zero included), so a printer that filters or reformats by value is
    exposed by the solver; the symbolic values travel through the text as identifiers (format hook), the rest of the text
    is parsed as JSON."""
    import math
    import re
    sym_keys, canary = item
    res = H.worker_result()
    cmod = H.repo_import('pygyro.initialisation.constants')
    t0 = _time.time()
    reg = {}
    old_str, old_fmt = symx.SNum.__str__, symx.SNum.__format__

    def naming(self, *a):
        for k_, v_ in reg.items():
            if v_ is self:
                return k_
        name = 'symv%d' % len(reg)
        reg[name] = self
        setattr(cmod, name, self)
        return name
    st = {}

    class FakeJson:
        @staticmethod
        def load(f):
            return st['data']

    class FakeFile:
        def __enter__(self): return self
        def __exit__(self, *a): return False

    def body(ctx):
        c = cmod.Constants()
        for k in sym_keys:
            v = z3.Real('p_' + k)
            ctx.assume(z3.And(v >= -2, v <= 2))
            setattr(c, k, symx.SReal(v))
        text = str(c)
        data = {}
        for line in text.strip().strip('{}').strip().split('\n'):
            line = line.strip().rstrip(',')
            if not line:
                continue
            mm = re.match(r'^"([^"]+)":(.*)$', line)
            if not mm:
                raise ValueError('line of the parameter file is not "key":value : %r' % line)
            key, vt = mm.group(1), mm.group(2).strip()
            data[key] = reg[vt] if vt in reg else json.loads(vt)
        st['data'] = dict(data)
        st['text'] = text
        new = cmod.get_constants('initParams.json')
        return c, new

    class FakeIntegrate:
        # scipy.integrate.quad is only reached when CN0 has to be computed: any value (the claim is that a CN0 given in
        # the file is kept, not what the quadrature returns)
        @staticmethod
        def quad(*a, **k):
            return (2.0, 0.0)
    real_integrate = cmod.integrate

    def patch():
        cmod.open = lambda *a, **k: FakeFile()
        cmod.json = FakeJson
        cmod.integrate = FakeIntegrate
        symx.SNum.__str__ = naming
        symx.SNum.__repr__ = naming
        symx.SNum.__format__ = naming

    def unpatch():
        symx.SNum.__str__ = old_str
        symx.SNum.__repr__ = old_str
        symx.SNum.__format__ = old_fmt
        cmod.json = json
        cmod.integrate = real_integrate
        if 'open' in vars(cmod):
            del cmod.open

    def replay(vals):
        """real file round trip with the model's values"""
        unpatch()
        fd, path = tempfile.mkstemp(suffix='.json')
        try:
            c = cmod.Constants()
            for k, v in vals.items():
                setattr(c, k, v)
            with os.fdopen(fd, 'w') as f:
                f.write(str(c))
            try:
                new = cmod.get_constants(path)
            except Exception as e:
                return 'the saved parameter file cannot be read back: %s: %s' % (type(e).__name__, str(e)[:120])
            for k in dir(c):
                a = getattr(c, k)
                if callable(a) or k[0] == '_':
                    continue
                b = getattr(new, k)
                if a != b:
                    return 'constant %s = %r is %r after writing and re-reading the parameter file' % (k, a, b)
            return None
        finally:
            os.remove(path)
            patch()
    patch()
    try:
        for ctx, (kind, val) in symx.explore(body, timeout_ms=20000, maxpaths=300):
            if kind == 'abort':
                if val.inconclusive:
                    res['inconclusive'].append('printer abort %s' % val.why)
                continue
            res['obligations'] += 1
            mdl = ctx.model() if ctx.check() == 'sat' else None
            vals = {k: float(symx.model_value(mdl, symx.SReal(z3.Real('p_' + k)))) for k in sym_keys} if mdl is not None else {k: 0.0 for k in sym_keys}
            if kind == 'exc':
                prob = replay(vals)
                if prob:
                    res['violations'].append(('constants:printer', '%s: %s / %s' % (type(val).__name__, str(val)[:100], prob), dict(kind='printer', values=vals)))
                else:
                    res['inconclusive'].append('printer: exception on the model only %r' % (val,))
                continue
            c, new = val
            bad, where = [], []
            for k in dir(c):
                a = getattr(c, k)
                if callable(a) or k[0] == '_':
                    continue
                b = getattr(new, k)
                if isinstance(a, symx.SNum) or isinstance(b, symx.SNum):
                    if b is None:
                        bad.append(z3.BoolVal(True))
                    else:
                        bad.append(symx.toreal(symx.zt(symx.K(a) if not isinstance(a, symx.SNum) else a)) != symx.toreal(symx.zt(symx.K(b) if not isinstance(b, symx.SNum) else b)))
                else:
                    bad.append(z3.BoolVal(a != b))
                where.append(k)
            r_ = ctx.check(z3.Or(bad))
            if r_ == 'unsat':
                res['discharged'] += 1
                res['nontrivial'].append('printer|%s' % ''.join('T' if d['choice'] else 'F' for d in ctx.decisions))
            elif r_ == 'sat':
                m2 = ctx.model()
                hits = [w for w, b in zip(where, bad) if z3.is_true(m2.eval(b, model_completion=True))]
                vals = {k: float(symx.model_value(m2, symx.SReal(z3.Real('p_' + k)))) for k in sym_keys}
                prob = replay(vals)
                rep = dict(kind='printer', constants=hits, values=vals, concrete=prob, canary=bool(canary))
                if prob:
                    res['violations'].append(('constants:printer', '%s (values %s)' % (prob, vals), rep))
                else:
                    res['inconclusive'].append('printer model does not reproduce: %r' % rep)
            else:
                res['inconclusive'].append('unknown printer query')
    finally:
        unpatch()
        for name in reg:
            if hasattr(cmod, name):
                delattr(cmod, name)
    res['stats'] = symx.GLOBAL.as_dict()
    symx.GLOBAL.__init__()
    res['wall'] = round(_time.time() - t0, 2)
    res['canary'] = canary[0] if canary else None
    return res


def replay_constants(fname, order, canary):
    """the real get_constants on a real file whose keys are written so that they are consumed in `order`"""
    import math
    import os
    import tempfile
    cmod = H.repo_import('pygyro.initialisation.constants')
    entries = dict(CONST_FILES[fname])
    rootvals = {}
    for i, (k, e) in enumerate(CONST_FILES[fname]):
        if e is None:
            rootvals[k] = 1.5 + 0.75 * i
    if not order:
        order = [k for k, _ in CONST_FILES[fname]]
    text = '{' + ', '.join('"%s": %s' % (k, json.dumps(rootvals[k] if entries[k] is None else entries[k])) for k in reversed(order)) + '}'
    fd, path = tempfile.mkstemp(suffix='.json')
    try:
        with os.fdopen(fd, 'w') as f:
            f.write(text)
        try:
            consts = cmod.get_constants(path)
        except Exception as e:
            return 'get_constants raised %s: %s for %s' % (type(e).__name__, e, text)
        exp = dict(rootvals)

        def value_of(k):
            if k not in exp:
                e = entries[k]
                exp[k] = eval(e, dict(pi=math.pi), {kk: value_of(kk) for kk in entries if kk != k and kk in _tokens(e)})
            return exp[k]
        for k in entries:
            got, want = getattr(consts, k), value_of(k)
            if got is None or abs(got - want) > 1e-12 * max(1.0, abs(want)):
                return 'constant %s = %r after loading %s, its expression gives %r' % (k, got, text, want)
    finally:
        os.remove(path)
    return None


CONST_CANARY = ('unresolved references fall back to the library default', 'cmod',
                [("            if (val is not None):\n                f[i] = str(val)\n            else:\n                return None\n",
                  "            if (val is None and el in defaults):\n                val = defaults[el]\n            if (val is not None):\n                f[i] = str(val)\n            else:\n                return None\n")])


def main():
    run = H.Run(PID, 'proof')
    real, lay = LS.modules()
    gridmod = H.repo_import('pygyro.model.grid')
    setups = H.repo_import('pygyro.initialisation.setups')
    if run.args.replay:
        rp = json.load(open(run.args.replay))['replay']
        if rp['kind'] == 'selection':
            print(replay_selection(rp['which'], rp['times']))
        elif rp['kind'] == 'driver':
            print(replay_driver(rp['loadable'], rp.get('rank', 0), rp['scenario']))
        else:
            print(json.dumps(rp))
        sys.exit(0)
    run.functions = H.src_info(real.Layout.__init__, gridmod.Grid.writeH5Dataset, gridmod.Grid.loadFromFile, setups.setupFromFile) + \
        [dict(function='fullSimulation.main', file='fullSimulation.py')]
    quick = run.tier == 'quick'
    P = 4 if quick else 8
    for r in H.pmap(tiling_item, [(a, b) for a in range(1, P + 1) for b in range(1, P + 1)], run.args.jobs):
        run.merge(r)
    for r in H.pmap(selection_item, [('setupFromFile', 2), ('loadFromFile', 2)] + ([] if quick else [('setupFromFile', 3)]), run.args.jobs):
        run.merge(r)
    for r in H.pmap(requested_item, [(2,)] + ([] if quick else [(3,)]), run.args.jobs):
        run.merge(r)
    K, SMAX = (3, 3) if quick else (6, 4)
    ditems = [(ld, rk, K, sv) for ld in (False, True) for rk in (0, 1) for sv in range(1, SMAX + 1)]
    for r in H.pmap(driver_item, ditems, run.args.jobs):
        run.merge(r)
    citems = [('chain3', None), ('mixed', None), ('enames', None)] + ([] if quick else [('chain4', None)])
    caught = {}
    for r in H.pmap(constants_item, citems + [('chain3', CONST_CANARY)], run.args.jobs):
        if r.get('canary'):
            run.add_stats(r.get('stats', {}))
            caught[r['canary']] = bool(r['violations'])
            continue
        run.merge(r)
    run.merge(printer_item((('n', 'm', 'eps', 'kN0', 'B0', 'iotaVal', 'CN0'), None)))
    lay4 = {'flux_surface': [0, 3, 1, 2], 'v_parallel': [0, 2, 1, 3], 'poloidal': [3, 2, 1, 0]}
    lay3 = {'v_parallel_2d': [0, 2, 1], 'mode_solve': [1, 2, 0]}
    hitems = []
    for lay_ in lay4:
        hitems.append((4, lay4, lay_, (2, 2), (1, 3)))
        if not quick:
            hitems.append((4, lay4, lay_, (1, 1), (3, 2)))
            hitems.append((4, lay4, lay_, (3, 1), (2, 2)))
            hitems.append((4, lay4, lay_, (2, 3), (3, 2)))
            hitems.append((4, lay4, lay_, (3, 3), (1, 1)))
    for lay_ in lay3:
        hitems.append((3, lay3, lay_, (2, 1), (1, 2)))
        if not quick:
            hitems.append((3, lay3, lay_, (3, 2), (2, 3)))
            hitems.append((3, lay3, lay_, (1, 3), (3, 1)))
    for it_ in hitems:
        run.merge(h5_item(it_))
    run.merge(restart_domain_item(None))
    run.sections['checkpoint_roundtrip_items'] = len(hitems)
    hit = caught.get(CONST_CANARY[0], False)
    run.canaries.append(dict(name=CONST_CANARY[0], detected=hit))
    if not hit:
        run.canary_miss(CONST_CANARY[0], caught)
    run.sections['constants_files'] = [c[0] for c in citems]
    run.stubs = LS.stubs() + ['glob -> symbolic file names produced by the writer\'s own format expression; str ordering by a digit-variable model',
                              'fullSimulation: every pygyro class, argparse, time.time (arbitrary non-decreasing clock), os.path/os.mkdir, open/print replaced by recording stubs']
    run.bounds = dict(tiling='all extents, 1..%d writer and reader processes per dimension' % P, selection='2 (thorough 3) checkpoints, times < 10^%d' % MAXD,
                      driver='saveStep <= %d, <= %d iterations, start time <= 8, dt = 2, both fresh and restarted runs, ranks 0 and 1' % (SMAX, K))
    run.outside = ['the h5py layer itself (C library, not MPI-enabled in this image; an in-memory stand-in takes its calls: create_dataset, slice assignment / read, attrs)', 'the text-level round trip of float literals through the saved parameter file (symbolic values travel as identifiers); an explicit rp entry (rp is derived from rMin/rMax by the setters)',
                   'non-integer time steps (file names such as grid_0002.5.h5)', 'state equality of split runs beyond control flow: follows from identical per-iteration operator sequences, '
                   'resumption at the checkpointed time and bit-exact I/O (the latter not decided)']
    run.assumptions = ['checkpoint names are produced by Grid.writeH5Dataset\'s format expression', 'dt = 2 (integer) in the driver runs']
    run.finish(
        explanation='(a) Layout tables on an unbounded extent: write/read slices tile. (b) real selection statements on symbolic file names: '
                    'z3 searches times for which the selected checkpoint is not the latest. (c) real driver under recording stubs, symbolic '
                    'saveStep/start/end and arbitrary clock: no exception, identical operator sequence per iteration, final time checkpointed '
                    'exactly once, no time written twice.',
        rule='case = (writer procs, reader procs); (selection site, number of files) x path; (fresh/restart, rank) x path of the driver')


if __name__ == '__main__':
    main()
