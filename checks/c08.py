"""C08 -- interpolants reproduce their data and all polynomials of the spline degree.

SplineInterpolator1D/2D (collocation, band packing, factorisation call, solve, periodic wrap, 2-D sweeps) run on
exact proxies with *symbolic data*; LAPACK ?gbtrf/?gbtrs and SuperLU are replaced by their contract (A c = b on
the matrix unpacked from the band array by LAPACK's documented layout).  Evaluation goes through the real
evaluator (C07).  z3 decides S(x_i) == u_i for all data, wrap consistency, and polynomial reproduction.
"""
import itertools
import json
import sys
import time
from fractions import Fraction as Fr

import numpy as np
import z3

from lib import symx, numenv
from lib import harness as H
from lib import splineoracle as SO
from lib.symx import K, SReal, zt, toreal
from checks.c07 import breaks_family, build_space, float_space, decide, apply_canary, undo_canary, EPS

PID = 'C08'


def sym_data(n, tag='u'):
    a = np.empty(n, dtype=object)
    for i in range(n):
        a[i] = SReal(z3.Real('%s%d' % (tag, i)))
    return a


def work_1d(item):
    degree, periodic, family, ncells, path, dtype, canary = item
    res = H.worker_result()
    m = numenv.mods()
    t0 = time.time()
    if canary:
        apply_canary(m, canary)
    numenv.enable()
    symx.set_bv(None)
    breaks = breaks_family(family, ncells)
    uf = (path == 'cu')
    quad_first = (dtype == 'float' and (ncells + degree) % 2 == 0)
    st = {}

    def body(ctx):
        knots, basis = build_space(m, degree, periodic, breaks, uf)
        interp = m['si'].SplineInterpolator1D(basis, dtype=complex if dtype == 'complex' else float)
        sp = m['spl'].Spline1D(basis)
        n = basis.nbasis
        u = sym_data(n)
        if quad_first:
            interp.get_quadrature_coefficients()          # history: the weights were requested from this interpolator before
        interp.compute_interpolant(u, sp)
        pts = list(basis.greville)
        vals = [sp.eval(p) for p in pts]
        st.update(u=u, n=n, pts=pts)
        out = dict(vals=vals, coeffs=list(sp.coeffs), u=list(u), pts=pts)
        # the same Spline1D object re-used for identically zero data: the result is the zero spline (all coefficients, wrapped
        # copies included), whatever the object held before
        zero = np.empty(n, dtype=object)
        zero[...] = K(0)
        interp.compute_interpolant(zero, sp)
        out['zero_coeffs'] = list(sp.coeffs)
        # polynomial reproduction on clamped spaces: data = P(x_i), P symbolic of degree <= p; S(x) == P(x) for symbolic x
        if not periodic:
            a = [SReal(z3.Real('a%d' % k)) for k in range(degree + 1)]
            pu = np.empty(n, dtype=object)
            for i, p in enumerate(pts):
                acc = K(0)
                for k in range(degree + 1):
                    acc = acc + a[k] * (p ** k)
                pu[i] = acc
            sp2 = m['spl'].Spline1D(basis)
            interp.compute_interpolant(pu, sp2)
            x = z3.Real('x')
            ctx.assume(z3.And(x >= z3.RealVal(breaks[0]), x <= z3.RealVal(breaks[-1])))
            out['poly'] = (a, SReal(x), sp2.eval(SReal(x)), sp2.eval(SReal(x), 1))
        return out

    def replay(what, uvals):
        numenv.disable()
        try:
            fb = float_space(m, degree, periodic, breaks, uf)
            it = m['si'].SplineInterpolator1D(fb, dtype=complex if dtype == 'complex' else float)
            sp = m['spl'].Spline1D(fb, dtype=complex if dtype == 'complex' else float)
            ug = np.array([float(v) for v in uvals], dtype=complex if dtype == 'complex' else float)
            if quad_first:
                it.get_quadrature_coefficients()
            it.compute_interpolant(ug, sp)
            kept = sp.coeffs.copy()
            it.compute_interpolant(np.zeros_like(ug), sp)
            zero_left = float(np.max(np.abs(sp.coeffs)))
            sp.coeffs[:] = kept
            got = np.array([sp.eval(float(p)) if dtype != 'complex' else None for p in fb.greville]) if dtype != 'complex' else None
            if dtype == 'complex':
                re = m['spl'].Spline1D(fb)
                re.coeffs[:] = sp.coeffs.real
                got = np.array([re.eval(float(p)) for p in fb.greville])
            err = float(np.max(np.abs(got - np.array([float(v) for v in uvals]))))
            wrap = 0.0
            if periodic:
                wrap = float(np.max(np.abs(sp.coeffs[fb.nbasis:fb.nbasis + degree] - sp.coeffs[:degree])))
        except Exception as e:
            return 'exception %s: %s' % (type(e).__name__, e)
        finally:
            numenv.enable()
        scale = max([abs(float(v)) for v in uvals]) or 1.0          # relative to the data magnitude (tiny data included)
        if err > 1e-8 * scale or wrap > 0:
            return 'interpolant misses its data by %.3g (wrap mismatch %.3g)' % (err, wrap)
        if zero_left > 0:
            return 'interpolating identically zero data into a spline that held another interpolant leaves coefficients up to %.3g' % zero_left
        return None

    for ctx, (kind, val) in symx.explore(body, timeout_ms=30000, index_cap=64, maxpaths=3000):
        if res['violations']:
            break            # one confirmed witness per space is enough; do not walk the remaining paths
        if kind == 'abort':
            if val.inconclusive:
                # the symbolic run stopped in something the exact environment does not model: the float run may still decide
                prob = replay('abort', [1.0 + 0.37 * i * i - 0.2 * i for i in range(ncells + (0 if periodic else degree))])
                if prob:
                    res['obligations'] += 1
                    res['violations'].append(('interp1d:%s' % path, '%r: %s (witness from the float run; symbolic run: %s)' % (item[:6], prob, val.why),
                                              dict(kind='interp1d', item=[str(v) for v in item[:6]], concrete=prob)))
                else:
                    res['inconclusive'].append('abort %s %r' % (val.why, item[:6]))
            continue
        if kind == 'exc':
            res['obligations'] += 1
            prob = replay('exception', [1.0 + 0.1 * i for i in range(ncells + (0 if periodic else degree))])
            rep = dict(kind='interp1d', item=[str(v) for v in item[:6]], symbolic='%s: %s' % (type(val).__name__, val), concrete=prob)
            if prob:
                res['violations'].append(('interp1d:exception', '%s %r: %s' % (type(val).__name__, item[:6], prob), rep))
            else:
                res['inconclusive'].append('exception on symbolic path only: %r %r' % (val, item[:6]))
            continue
        u, vals, pts = val['u'], val['vals'], val['pts']
        bad = [toreal(zt(v)) != toreal(zt(ui)) for v, ui in zip(vals, u)]
        bad += [toreal(zt(K(c))) != 0 for c in val['zero_coeffs']]
        if periodic:
            cs = val['coeffs']
            n = st['n']
            for i in range(degree):
                bad.append(toreal(zt(cs[n + i])) != toreal(zt(cs[i])))
        res['obligations'] += 1
        r = ctx.check(z3.Or(bad))
        if r == 'unsat':
            res['discharged'] += 1
            res['nontrivial'].append('interp|%r' % (item[:6],))
            if len(res['samples']) < 1:
                res['samples'].append(dict(config=[str(v) for v in item[:6]], interpolation_points=[str(symx.fval(p)) for p in pts][:6]))
        elif r == 'sat':
            mdl = ctx.model()
            uv = [symx.model_value(mdl, ui) for ui in u]
            prob = replay('data', uv)
            rep = dict(kind='interp1d', item=[str(v) for v in item[:6]], data=[str(v) for v in uv], concrete=prob, canary=bool(canary))
            if prob:
                res['violations'].append(('interp1d:%s' % path, '%r: %s' % (item[:6], prob), rep))
            else:
                res['inconclusive'].append('interpolation model does not reproduce in floats: %r' % (rep,))
        else:
            res['inconclusive'].append('unknown interpolation query %r' % (item[:6],))
        if 'poly' in val:
            a, x, sv, sd = val['poly']
            names = set(t.t.decl().name() for t in a)
            avars = [t.t for t in a]
            P = K(0)
            dP = K(0)
            for k in range(degree + 1):
                P = P + a[k] * (x ** k)
                if k >= 1:
                    dP = dP + a[k] * k * (x ** (k - 1))
            for what, got, exp in (('value', sv, P), ('slope', sd, dP)):
                res['obligations'] += 1
                diff = toreal(zt(got)) - toreal(zt(exp))
                if symx.lin_degree(diff, names) is None:
                    res['inconclusive'].append('polynomial reproduction term not linear in the polynomial coefficients')
                    continue
                verdict = 'unsat'
                for cname, ct in symx.coefficient_terms(diff, avars).items():
                    if z3.is_rational_value(ct) and ct.numerator_as_long() == 0:
                        continue
                    r, mm = decide(ctx, ct != 0, res, 'poly')
                    if r == 'sat':
                        verdict = 'sat'
                        xv = symx.model_value(mm, x)
                        rep = dict(kind='poly', item=[str(v) for v in item[:6]], monomial=cname, x=str(xv), canary=bool(canary))
                        res['violations'].append(('polyrepro:%s' % path, 'polynomial %s (degree<=%d) not reproduced (%s) at x=%s %r' % (
                            cname, degree, what, float(xv), item[:6]), rep))
                        break
                    if r != 'unsat':
                        verdict = 'unknown'
                if verdict == 'unsat':
                    res['discharged'] += 1
                elif verdict == 'unknown':
                    res['inconclusive'].append('unknown polynomial reproduction %r' % (item[:6],))
    numenv.disable()
    if canary:
        undo_canary(m)
    res['stats'] = symx.GLOBAL.as_dict()
    symx.GLOBAL.__init__()
    res['solves'] = dict(numenv.SOLVES)
    res['wall'] = round(time.time() - t0, 2)
    res['canary'] = canary[0] if canary else None
    return res


def work_complex(item):
    """complex data on a clamped space, data genuinely complex (pairs of symbolic reals); `history` says what was built on
    the SAME basis object before: nothing, a real 1-D interpolator (used once), a 2-D interpolator containing the basis;
    'real_after' checks a real interpolator built after the complex one.  dgbtrs discards imaginary parts (f2py cast),
    zgbtrs keeps them: the contract stand-ins do the same."""
    degree, family, ncells, path, history, canary = item
    res = H.worker_result()
    m = numenv.mods()
    t0 = time.time()
    if canary:
        apply_canary(m, canary)
    numenv.enable()
    symx.set_bv(None)
    breaks = breaks_family(family, ncells)
    uf = (path == 'cu')
    SI, SP = m['si'], m['spl']

    def sequence(basis, other, real_data, cdata, SC):
        """the same sequence of library calls for the symbolic run and the float replay"""
        if history == 'after_real':
            it0 = SI.SplineInterpolator1D(basis)
            s0 = SP.Spline1D(basis)
            it0.compute_interpolant(real_data, s0)
        elif history == 'after_2d':
            SI.SplineInterpolator2D(other, basis)
        cdt = np.complex128 if history == 'np128' else complex          # numpy's name for the same type is a legitimate spelling
        itc = SI.SplineInterpolator1D(basis, dtype=cdt)
        spc = SP.Spline1D(basis, dtype=cdt)
        itc.compute_interpolant(cdata, spc)
        out = dict(c=spc)
        if history == 'real_after':
            it1 = SI.SplineInterpolator1D(basis)
            s1 = SP.Spline1D(basis)
            it1.compute_interpolant(real_data, s1)
            out['r'] = s1
        return out

    def body(ctx):
        knots, basis = build_space(m, degree, False, breaks, uf)
        ob = breaks_family('uniform', 4)
        _, other = build_space(m, 3, True, ob, uf)
        n = basis.nbasis
        re, im, rd = sym_data(n, 're'), sym_data(n, 'im'), sym_data(n, 'w')
        cdata = np.empty(n, dtype=object)
        for i in range(n):
            cdata[i] = symx.SComplex(re[i], im[i])
        out = sequence(basis, other, rd, cdata, symx.SComplex)
        pts = list(basis.greville)
        vals = [out['c'].eval(p) for p in pts]
        rvals = [out['r'].eval(p) for p in pts] if 'r' in out else None
        return dict(re=re, im=im, rd=rd, vals=vals, rvals=rvals, pts=pts)

    def parts(v):
        if isinstance(v, symx.SComplex):
            return v.re, v.im
        if isinstance(v, complex):
            return v.real, v.imag
        return v, 0

    def replay(rev, imv, rdv):
        numenv.disable()
        try:
            fb = float_space(m, degree, False, breaks, uf)
            ofb = float_space(m, 3, True, breaks_family('uniform', 4), uf)
            import warnings
            with warnings.catch_warnings():
                warnings.simplefilter('ignore')
                out = sequence(fb, ofb, np.array([float(v) for v in rdv]), np.array([complex(float(a), float(b)) for a, b in zip(rev, imv)]), complex)
            got = np.array([out['c'].eval(float(p)) for p in fb.greville])
            exp = np.array([complex(float(a), float(b)) for a, b in zip(rev, imv)])
            err = float(np.max(np.abs(got - exp)))
            scale = max(1e-300, float(np.max(np.abs(exp))))
            if 'r' in out:
                gr = np.array([out['r'].eval(float(p)) for p in fb.greville])
                err = max(err, float(np.max(np.abs(gr - np.array([float(v) for v in rdv])))))
                scale = max(scale, max(abs(float(v)) for v in rdv))
        except Exception as e:
            return 'exception %s: %s' % (type(e).__name__, e)
        finally:
            numenv.enable()
        if err > 1e-8 * scale:
            return 'complex interpolant (history: %s) misses its data by %.3g' % (history, err)
        return None

    for ctx, (kind, val) in symx.explore(body, timeout_ms=30000, index_cap=64, maxpaths=200):
        if kind == 'abort':
            if val.inconclusive:
                res['inconclusive'].append('abort %s %r' % (val.why, item[:5]))
            continue
        res['obligations'] += 1
        n = ncells + degree
        if kind == 'exc':
            prob = replay([1.0 + 0.1 * i for i in range(n)], [0.5 - 0.2 * i for i in range(n)], [2.0 + i for i in range(n)])
            rep = dict(kind='interp_complex', item=[str(v) for v in item[:5]], symbolic='%s: %s' % (type(val).__name__, val), concrete=prob)
            if prob:
                res['violations'].append(('interp1d:complex:exception', '%s %r: %s' % (type(val).__name__, item[:5], prob), rep))
            else:
                res['inconclusive'].append('exception on symbolic path only: %r %r' % (val, item[:5]))
            continue
        bad = []
        for v, a, b in zip(val['vals'], val['re'], val['im']):
            vr, vi = parts(v)
            bad.append(toreal(zt(K(vr))) != toreal(zt(a)))
            bad.append(toreal(zt(K(vi))) != toreal(zt(b)))
        if val['rvals'] is not None:
            for v, w in zip(val['rvals'], val['rd']):
                vr, vi = parts(v)
                bad.append(toreal(zt(K(vr))) != toreal(zt(w)))
        r = ctx.check(z3.Or(bad))
        if r == 'unsat':
            res['discharged'] += 1
            res['nontrivial'].append('interp_complex|%r' % (item[:5],))
        elif r == 'sat':
            mdl = ctx.model()
            rev = [symx.model_value(mdl, x) for x in val['re']]
            imv = [symx.model_value(mdl, x) for x in val['im']]
            rdv = [symx.model_value(mdl, x) for x in val['rd']]
            prob = replay(rev, imv, rdv)
            rep = dict(kind='interp_complex', item=[str(v) for v in item[:5]], re=[str(v) for v in rev], im=[str(v) for v in imv], concrete=prob, canary=bool(canary))
            if prob:
                res['violations'].append(('interp1d:complex', '%r: %s' % (item[:5], prob), rep))
            else:
                res['inconclusive'].append('complex interpolation model does not reproduce in floats: %r' % (rep,))
        else:
            res['inconclusive'].append('unknown complex interpolation query %r' % (item[:5],))
    numenv.disable()
    if canary:
        undo_canary(m)
    res['stats'] = symx.GLOBAL.as_dict()
    symx.GLOBAL.__init__()
    res['wall'] = round(time.time() - t0, 2)
    res['canary'] = canary[0] if canary else None
    return res


def work_2d(item):
    (d1, per1, fam1, n1), (d2, per2, fam2, n2), path, canary = item
    res = H.worker_result()
    m = numenv.mods()
    numenv.enable()
    symx.set_bv(None)
    b1, b2 = breaks_family(fam1, n1), breaks_family(fam2, n2)
    uf = (path == 'cu')

    def body(ctx):
        k1, B1 = build_space(m, d1, per1, b1, uf)
        k2, B2 = build_space(m, d2, per2, b2, uf)
        it = m['si'].SplineInterpolator2D(B1, B2)
        sp = m['spl'].Spline2D(B1, B2)
        U = np.empty((B1.nbasis, B2.nbasis), dtype=object)
        for i in range(B1.nbasis):
            for j in range(B2.nbasis):
                U[i, j] = SReal(z3.Real('u_%d_%d' % (i, j)))
        it.compute_interpolant(U, sp)
        p1, p2 = list(B1.greville), list(B2.greville)
        vals = [[sp.eval(x, y) for y in p2] for x in p1]
        cross = sp.eval(numenv.karr([symx.fval(x) for x in p1]), numenv.karr([symx.fval(y) for y in p2]))
        return U, vals, cross, sp.coeffs, (B1.nbasis, B2.nbasis)

    for ctx, (kind, val) in symx.explore(body, timeout_ms=60000, index_cap=64, maxpaths=300):
        if res['violations']:
            break
        if kind != 'ok':
            if kind == 'abort' and not val.inconclusive:
                continue
            res['inconclusive'].append('2d interpolation: %s %r %r' % (kind, val, item[:3]))
            continue
        U, vals, cross, C, (nb1, nb2) = val
        bad = []
        for i in range(nb1):
            for j in range(nb2):
                bad.append(toreal(zt(vals[i][j])) != toreal(zt(U[i, j])))
                bad.append(toreal(zt(cross[i, j])) != toreal(zt(U[i, j])))
        if per1:
            for i in range(d1):
                for j in range(C.shape[1]):
                    bad.append(toreal(zt(C[nb1 + i, j])) != toreal(zt(C[i, j])))
        if per2:
            for j in range(d2):
                for i in range(C.shape[0]):
                    bad.append(toreal(zt(C[i, nb2 + j])) != toreal(zt(C[i, j])))
        res['obligations'] += 1
        r = ctx.check(z3.Or(bad))
        if r == 'unsat':
            res['discharged'] += 1
            res['nontrivial'].append('interp2d|%r' % (item[:3],))
        elif r == 'sat':
            mdl = ctx.model()
            Uv = [[float(symx.model_value(mdl, U[i, j])) for j in range(nb2)] for i in range(nb1)]
            prob = replay_2d(m, item, Uv)
            rep = dict(kind='interp2d', item=str(item[:3]), data=Uv, concrete=prob, canary=bool(canary))
            if prob:
                res['violations'].append(('interp2d', '%r: %s' % (item[:3], prob), rep))
            else:
                res['inconclusive'].append('2d interpolation model does not reproduce: %r' % (item[:3],))
        else:
            res['inconclusive'].append('unknown 2d interpolation query')
    numenv.disable()
    res['stats'] = symx.GLOBAL.as_dict()
    symx.GLOBAL.__init__()
    return res


def replay_2d(m, item, Uv):
    (d1, per1, fam1, n1), (d2, per2, fam2, n2), path, canary = item
    b1, b2 = breaks_family(fam1, n1), breaks_family(fam2, n2)
    numenv.disable()
    try:
        B1, B2 = float_space(m, d1, per1, b1, path == 'cu'), float_space(m, d2, per2, b2, path == 'cu')
        it = m['si'].SplineInterpolator2D(B1, B2)
        sp = m['spl'].Spline2D(B1, B2)
        U = np.array(Uv, dtype=float)
        it.compute_interpolant(U, sp)
        got = sp.eval(B1.greville, B2.greville)
        err = float(np.max(np.abs(got - U)))
    except Exception as e:
        return 'exception %s: %s' % (type(e).__name__, e)
    finally:
        numenv.enable()
    if err > 1e-8 * (float(np.max(np.abs(U))) or 1.0):
        return '2-D interpolant misses its data by %.3g (data magnitude %.3g)' % (err, float(np.max(np.abs(U))))
    return None


CANARIES = [
    ('band packing row offset', 'si', [("bmat[self._u + self._l+i-j, j] = cmat[i, j]", "bmat[self._u + self._l+i-j, j] = cmat[i, j] if i != j+1 else cmat[j, i]")]),
    ('periodic wrap copies the wrong coefficients', 'si', [("        c[n:n+p] = c[0:p]\n", "        c[n:n+p] = c[1:p+1]\n")]),
]


def dtype_item(item):
    """concrete part (nothing symbolic): the same data handed over as an integer-typed matrix / vector and as float64 must give
    the same interpolant (the library may not let the caller's dtype decide the precision of its intermediate results)"""
    (d1, per1, fam1, n1), (d2, per2, fam2, n2), path = item
    res = H.worker_result()
    m = numenv.mods()
    numenv.disable()
    res['obligations'] += 1
    try:
        b1, b2 = breaks_family(fam1, n1), breaks_family(fam2, n2)
        B1, B2 = float_space(m, d1, per1, b1, path == 'cu'), float_space(m, d2, per2, b2, path == 'cu')
        rng = np.random.RandomState(3)
        Ui = rng.randint(-9, 10, size=(B1.nbasis, B2.nbasis))
        outs = []
        for U in (Ui.astype(float), Ui):
            it = m['si'].SplineInterpolator2D(B1, B2)
            sp = m['spl'].Spline2D(B1, B2)
            it.compute_interpolant(U, sp)
            outs.append(np.array(sp.coeffs, dtype=float).copy())
        it1 = m['si'].SplineInterpolator1D(B1)
        o1 = []
        for u in (Ui[:, 0].astype(float), Ui[:, 0]):
            s1 = m['spl'].Spline1D(B1)
            it1.compute_interpolant(u, s1)
            o1.append(np.array(s1.coeffs, dtype=float).copy())
        dev = max(float(np.max(np.abs(outs[0] - outs[1]))), float(np.max(np.abs(o1[0] - o1[1]))))
        if dev > 1e-9:
            res['violations'].append(('interp:dtype', 'integer-typed data give coefficients that differ by %.3g from those of the same data as float64 %r' % (dev, item),
                                      dict(kind='dtype', item=str(item))))
        else:
            res['discharged'] += 1
            res['nontrivial'].append('dtype|%r' % (item,))
    except Exception as e:
        res['violations'].append(('interp:dtype', 'integer-typed data: %s: %s %r' % (type(e).__name__, str(e)[:150], item), dict(kind='dtype', item=str(item))))
    finally:
        numenv.enable()
        numenv.disable()
    return res


def scale_item(item):
    """concrete part (nothing symbolic): interpolation is linear in the data, so data of any admissible magnitude (1e-200 ... 1e250, and
    data whose variation is tiny next to their mean) must be reproduced at the interpolation points to rounding, in 1-D and in 2-D"""
    (d1, per1, fam1, n1), (d2, per2, fam2, n2), path = item
    res = H.worker_result()
    m = numenv.mods()
    numenv.disable()
    try:
        b1, b2 = breaks_family(fam1, n1), breaks_family(fam2, n2)
        B1, B2 = float_space(m, d1, per1, b1, path == 'cu'), float_space(m, d2, per2, b2, path == 'cu')
        rng = np.random.RandomState(4)
        base2 = rng.rand(B1.nbasis, B2.nbasis) + 0.5
        x1, x2 = np.array(B1.greville, dtype=float), np.array(B2.greville, dtype=float)
        for label, f in (('1e250', lambda a: a * 1e250), ('1e160', lambda a: a * 1e160), ('1e-200', lambda a: a * 1e-200), ('1e-9', lambda a: a * 1e-9),
                         ('1 + 1e-7 x', lambda a: 1.0 + 1e-7 * a), ('-4e5 + 1e-3 x', lambda a: -4e5 + 1e-3 * a)):
            res['obligations'] += 1
            U = f(base2)
            it = m['si'].SplineInterpolator2D(B1, B2)
            sp = m['spl'].Spline2D(B1, B2)
            it.compute_interpolant(U, sp)
            got2 = np.array([[float(sp.eval(float(a), float(b))) for b in x2] for a in x1])
            it1 = m['si'].SplineInterpolator1D(B1)
            s1 = m['spl'].Spline1D(B1)
            it1.compute_interpolant(U[:, 0].copy(), s1)
            got1 = np.array([float(s1.eval(float(a))) for a in x1])
            spread = float(np.max(U) - np.min(U))
            tol = 1e-9 * max(spread, 1e-6 * float(np.max(np.abs(U))))
            dev = max(float(np.max(np.abs(got2 - U))), float(np.max(np.abs(got1 - U[:, 0]))))
            if not (dev <= tol):
                res['violations'].append(('interp:scale', 'data of the form %s are not reproduced at the interpolation points: deviation %.3g (variation of the data %.3g) %r' % (
                    label, dev, spread, item), dict(kind='scale', item=str(item), data=label)))
            else:
                res['discharged'] += 1
                res['nontrivial'].append('scale|%s|%r' % (label, item))
    except Exception as e:
        res['obligations'] += 1
        res['violations'].append(('interp:scale', 'admissible finite data: %s: %s %r' % (type(e).__name__, str(e)[:150], item), dict(kind='scale', item=str(item))))
    finally:
        numenv.enable()
        numenv.disable()
    return res


CANARY_COMPLEX = ('complex interpolator solves with the real routine', 'si', [("                self._solveFunc = zgbtrs\n", "                self._solveFunc = dgbtrs\n")])


def configs(tier):
    c1, c2 = [], []
    if tier == 'quick':
        degs, fams, cells = [1, 2, 3, 4, 5], ['uniform', 'graded', 'irregular'], lambda d: [d, d + 1, d + 3]
    else:
        degs, fams, cells = [1, 2, 3, 4, 5, 6, 7, 8, 9, 10], ['uniform', 'graded', 'decreasing', 'alternating', 'geometric', 'irregular'], lambda d: [1, 2, d, d + 1, d + 2, 8, 12]
    for d in degs:
        for fam in fams:
            for n in sorted(set(cells(d))):
                for per in (False, True):
                    if per and n < d:            # make_knots admits periodic spaces with ncells >= degree
                        continue
                    c1.append((d, per, fam, n, 'nu', 'float', None))
    for d in ([3] if tier == 'quick' else [1, 3, 5]):
        c1.append((d, False, 'graded', d + 2, 'nu', 'complex', None))
    for n in ([1, 3, 4, 6] if tier == 'quick' else [1, 2, 3, 4, 6, 8]):
        for per in (False, True):
            if per and n < 3:
                continue
            c1.append((3, per, 'uniform', n, 'cu', 'float', None))
    c1.append((3, False, 'uniform', 5, 'cu', 'complex', None))
    if tier == 'quick':
        c2 += [((3, True, 'uniform', 4), (3, False, 'uniform', 2), 'cu', None),
               ((2, True, 'graded', 3), (3, False, 'irregular', 2), 'nu', None),
               ((1, False, 'irregular', 2), (2, True, 'uniform', 3), 'nu', None),
               ((2, False, 'irregular', 2), (3, True, 'graded', 4), 'nu', None)]      # second direction periodic, different degrees >= 2
    else:
        for da, db in itertools.product([1, 2, 3, 4, 5], repeat=2):
            c2.append(((da, True, 'graded', da + 1), (db, False, 'irregular', 2), 'nu', None))
            c2.append(((da, False, 'geometric', 2), (db, True, 'alternating', db + 1), 'nu', None))
            if da <= db:
                c2.append(((da, True, 'decreasing', da + 2), (db, True, 'graded', db), 'nu', None))            # periodic x periodic (ncells == degree in the second)
                c2.append(((da, False, 'irregular', 3), (db, False, 'decreasing', 1), 'nu', None))            # clamped x clamped (one cell in the second)
        c2 += [((3, True, 'uniform', 5), (3, False, 'uniform', 3), 'cu', None), ((3, False, 'uniform', 1), (3, True, 'uniform', 4), 'cu', None),
               ((3, True, 'uniform', 4), (3, True, 'uniform', 5), 'cu', None), ((3, False, 'uniform', 2), (3, False, 'uniform', 3), 'cu', None)]
    return c1, c2


def main():
    run = H.Run(PID, 'proof')
    m = numenv.mods()
    if run.args.replay:
        print(json.dumps(json.load(open(run.args.replay))['replay'], indent=1))
        sys.exit(0)
    si, spl = m['si'], m['spl']
    run.functions = H.src_info(si.SplineInterpolator1D.__init__, si.SplineInterpolator1D.collocation_matrix,
                               si.SplineInterpolator1D.compute_interpolant, si.SplineInterpolator1D._solve_system_periodic,
                               si.SplineInterpolator1D._solve_system_nonperiodic, si.SplineInterpolator2D.__init__,
                               si.SplineInterpolator2D.compute_interpolant, spl.BSplines.greville, spl.BSplines.__init__)
    c1, c2 = configs(run.tier)
    c1.append((3, False, 'graded', 5, 'nu', 'float', CANARIES[0]))
    c1.append((3, True, 'graded', 5, 'nu', 'float', CANARIES[1]))
    caught = {}
    solves = dict(exact=0, contract=0)
    for r in H.pmap(work_1d, c1, run.args.jobs):
        if r.get('canary'):
            run.add_stats(r.get('stats', {}))
            caught[r['canary']] = bool(r['violations'])
            continue
        for k in solves:
            solves[k] += r.get('solves', {}).get(k, 0)
        run.merge(r)
    for r in H.pmap(work_2d, c2, run.args.jobs):
        run.merge(r)
    cc = []
    for hist in ('fresh', 'after_real', 'after_2d', 'real_after', 'np128'):
        cc.append((3, 'graded', 3, 'nu', hist, None))
        cc.append((3, 'uniform', 4, 'cu', hist, None))
        if run.tier != 'quick':
            for d in (1, 2, 4, 5):
                cc.append((d, 'irregular', d + 1, 'nu', hist, None))
    cc.append((2, 'graded', 3, 'nu', 'fresh', CANARY_COMPLEX))
    for r in H.pmap(work_complex, cc, run.args.jobs):
        if r.get('canary'):
            run.add_stats(r.get('stats', {}))
            caught[r['canary']] = bool(r['violations'])
            continue
        run.merge(r)
    run.sections['complex_history_configs'] = len(cc) - 1
    for it_ in [((3, True, 'uniform', 4), (3, False, 'uniform', 2), 'cu'), ((2, True, 'graded', 3), (3, False, 'irregular', 2), 'nu'),
                ((2, False, 'irregular', 2), (3, True, 'graded', 4), 'nu')]:
        run.merge(dtype_item(it_))
        run.merge(scale_item(it_))
    for cn in CANARIES + [CANARY_COMPLEX]:
        hit = caught.get(cn[0], False)
        run.canaries.append(dict(name=cn[0], detected=hit))
        if not hit:
            run.canary_miss(cn[0], caught)
    numenv.enable()
    run.stubs = sorted(set(numenv.STUBS)) + ['?gbtrf/?gbtrs: contract A c = b on the matrix unpacked from LAPACK band storage AB[kl+ku+i-j,j]=A[i,j]',
                                             'splu(M).solve(b, trans): contract M c = b / M^T c = b', 'scipy.sparse dia/csr/csc_matrix: dense object stand-in']
    numenv.disable()
    run.sections['solves'] = solves
    run.sections['configs'] = dict(one_d=len(c1), two_d=len(c2))
    run.bounds = dict(quick='degrees 1-5, 3 knot families, cells d+1/d+3, uniform-cubic 1/4/6 cells, three 2-D spaces', thorough='degrees 1-10, 6 families, cells {1,2,d,d+1,d+2,8,12}; 2-D 5x5 degrees in four boundary combinations', this_run=run.tier)
    run.outside = ['conditioning / rounding of the factorisation (badly scaled data only in the exact sense)', 'the LAPACK/SuperLU elimination itself (contract)',
                   'complex data: pairs of symbolic reals through the real code; dgbtrs (f2py cast to float64) discards imaginary parts, zgbtrs keeps them']
    run.assumptions = ['exact reals for doubles', 'LAPACK band layout as documented', 'np.around(.,15) identity']
    run.finish(
        explanation='Real SplineInterpolator1D/2D on symbolic data with solver contracts; z3 decides for all data that the interpolant '
                    '(evaluated by the real kernels) equals the data at every interpolation point, that wrapped coefficients are '
                    'consistent, and (clamped) that every polynomial of degree <= p is reproduced for all x (value and slope).',
        rule='case = spline space (degree, boundary, knot family, cells, kernel path, dtype); feasible paths of the symbolic-x part')


if __name__ == '__main__':
    main()
