"""C15 (partial) -- quasi-neutrality pipeline: per-mode solution, real potential, m=0 convention.

The real pipeline  getModes -> layout change -> QuasiNeutralitySolver.solveEquation -> layout change -> findPotential
runs in exact arithmetic on real Grid / LayoutHandler objects (modes distributed over a simulated process grid) with a
fully symbolic real density rho[r,theta,z].  scipy.fftpack.fft/ifft are replaced by their *definition* (the discrete
Fourier transform, contract) for ntheta = 4, whose twiddle factors {1,-i,-1,i} are exact, and for ntheta = 3 (2, 6), whose
twiddle factors lie in Q(i, sqrt 3) (sqrt 3 = z3 real constant with sqrt3^2 = 3, sqrt3 > 0); equilibrium profiles n0, Te,
n0'/n0 are rational functions so that the per-mode systems are concrete and solved exactly (spsolve contract).
z3 decides, for all densities:
   * the potential equals  IDFT_k [ per-mode dense Galerkin solution of the radial equation with DFT_k(rho) ]  computed by an
     independent implementation (mode numbers in FFT order, m^2, Neumann at the inner boundary for m=0 only, and for m=0 the
     stiffness selected by chi: chi=1 drops the phi/Te term, chi=0 keeps it; kinetic electrons: no phi/Te term at all),
   * the potential is real (imaginary part identically zero) for a real density,
   * it is linear in rho (by construction of the identity) and zero for rho = 0.
NOT decided: "FFT round trip is the identity" (true by the contract used here), theta counts with twiddle factors outside
Q(i, sqrt 3), the fixed point of the complete time step.
"""
import itertools
import json
import sys
import time
import warnings
from fractions import Fraction as Fr

import numpy as np
import z3

from lib import symx, numenv, simmpi, dist
from lib import harness as H
from lib import splineoracle as SO
from lib.symx import K, SReal, SComplex, zt, toreal
from checks.c07 import apply_canary, undo_canary
from checks.c14 import SparseStub

PID = 'C15'
S3 = z3.Real('sqrt3')            # the algebraic number sqrt(3): constrained by S3*S3 == 3, S3 > 0 on every path that uses it


def twiddles(n):
    """omega^k, k = 0..n-1, for omega = exp(-2 pi i / n) as exact (re, im) pairs; n in {1,2,4} Gaussian rationals,
    n in {3,6,12} elements of Q(sqrt 3)"""
    h = K(Fr(1, 2))
    s = SReal(S3) * K(Fr(1, 2))
    table = {1: [(1, 0)], 2: [(1, 0), (-1, 0)], 4: [(1, 0), (0, -1), (-1, 0), (0, 1)],
             3: [(1, 0), (-h, -s), (-h, s)],
             6: [(1, 0), (h, -s), (-h, -s), (-1, 0), (-h, s), (h, s)],
             12: [(1, 0), (s, -h), (h, -s), (0, -1), (-h, -s), (-s, -h), (-1, 0), (-s, h), (-h, s), (0, 1), (h, s), (s, h)]}
    if n not in table:
        raise AssertionError('the exact DFT stand-in is defined for ntheta in {1,2,3,4,6,12} only')
    return table[n]


def mode_numbers(n):
    """FFT order: 0, 1, ..., -2, -1 (for even n the Nyquist mode is -n/2)"""
    return [I if I <= (n - 1) // 2 else I - n for I in range(n)]


def cparts(x):
    if isinstance(x, SComplex):
        return x.re, x.im
    if isinstance(x, complex):
        return x.real, x.imag
    return x, 0


def dft(vec, inverse=False):
    """definition of scipy.fftpack.fft / ifft (exact twiddles)"""
    n = len(vec)
    W = twiddles(n)
    out = np.empty(n, dtype=object)
    for k in range(n):
        re, im = 0, 0
        for j in range(n):
            wr, wi = W[(j * k) % n]
            if inverse:
                wi = -wi
            a, b = cparts(vec[j])
            re = re + a * wr - b * wi
            im = im + a * wi + b * wr
        if inverse:
            re, im = re * K(Fr(1, n)), im * K(Fr(1, n))
        out[k] = SComplex(re, im)
    return out


def fft_stub(vec, overwrite_x=False):
    return dft(vec, False)


def ifft_stub(vec, overwrite_x=False):
    return dft(vec, True)


class _ComplexLikeMeta(type):
    def __instancecheck__(cls, x):
        # element of a complex128 grid in the exact model: a complex pair, or a value whose imaginary part folded to zero
        return isinstance(x, (SComplex, symx.SNum, complex, float, int))


class ComplexLike(metaclass=_ComplexLikeMeta):
    pass


class NPQ(numenv.NPNum):
    complex128 = ComplexLike       # the pipeline asserts isinstance(value, np.complex128)


def n0(r): return 1 + r / 10
def Te(r): return 2 - r / 8
def n0dn(r): return K(Fr(1, 10)) / (1 + r / 10) if isinstance(r, symx.Sym) else Fr(1, 10) / (1 + r / 10)


def spsolve_exact(A, b):
    # scipy.sparse.linalg.spsolve: a right-hand side that is a vector OR a matrix with a single column yields a 1-D solution
    x = numenv.solve_contract(A.M, b, False)
    if getattr(x, 'ndim', 1) == 2 and x.shape[1] == 1:
        x = x.ravel()
    return x


def work(item):
    rdeg, ncells, rpath, nprocs, adiabatic, chi, NQ, canary = item[:8]
    use_n0deriv = len(item) > 8 and item[8]          # density gradient given through the documented alternative keyword n0deriv = n0'
    W = twiddles(NQ)
    res = H.worker_result()
    m = dist.mods()
    ps = H.repo_import('pygyro.poisson.poisson_solver')
    t0 = time.time()
    if canary:
        apply_canary(dict(m, ps=ps), canary)
    numenv.enable(extra_modules=[(ps, dict(sparse=SparseStub, spsolve=spsolve_exact, fft=fft_stub, ifft=ifft_stub, np=NPQ()))])
    symx.set_bv(None)
    breaks = dist.uniform_breaks(1, 3, ncells)
    nz = 2
    nranks = int(np.prod(nprocs))
    Bf = Fr(3, 2)
    st = {}

    def body(ctx):
        if NQ in (3, 6):
            ctx.assume(z3.And(S3 * S3 == 3, S3 > 0))
        rb = dist.make_basis(rdeg, False, breaks, uniform=(rpath == 'cu'))
        rpts = list(rb.greville)
        nr = len(rpts)
        eta = [np.array(rpts, dtype=object), numenv.karr([Fr(i, NQ) for i in range(NQ)]), numenv.karr([Fr(i) for i in range(nz)])]
        RHO = dist.symbolic_field('rho', (nr, NQ, nz))
        st.update(RHO=RHO, rpts=rpts, nr=nr)

        def rankfn(comm):
            with warnings.catch_warnings():
                warnings.simplefilter('ignore')
                h1 = m['layout'].getLayoutHandler(comm, {'v_parallel_2d': [0, 2, 1], 'mode_solve': [1, 2, 0]}, list(nprocs), eta)
                h2 = m['layout'].getLayoutHandler(comm, {'v_parallel_2d': [0, 2, 1], 'mode_solve': [1, 2, 0]}, list(nprocs), eta)
            rho = m['grid'].Grid(eta, [rb, None, None], h1, 'v_parallel_2d', comm=comm, dtype=object)
            phi = m['grid'].Grid(eta, [rb, None, None], h2, 'v_parallel_2d', comm=comm, dtype=object)
            cplx = np.empty(RHO.shape, dtype=object)
            for idx in itertools.product(*[range(n) for n in RHO.shape]):
                cplx[idx] = SComplex(RHO[idx], 0)
            dist.fill_grid(rho, cplx)
            dist.fill_grid(phi, cplx)          # content irrelevant, overwritten

            class Cst:
                CN0 = kN0 = deltaRN0 = rp = CTe = kTe = deltaRTe = None
            kw = dict(n0=n0, B=K(Bf), Te=Te, n0derivNormalised=n0dn)
            if use_n0deriv:
                del kw['n0derivNormalised']
                kw['n0deriv'] = lambda r: n0dn(r) * n0(r)
            if adiabatic:
                kw['chi'] = chi
            qn = ps.QuasiNeutralitySolver(eta, 2 * rdeg, rb, Cst, adiabaticElectrons=adiabatic, **kw)
            if chi == 1 or not adiabatic:
                # history: the same solver object has already solved for another (concrete) density
                other = np.empty(RHO.shape, dtype=object)
                for idx in itertools.product(*[range(n) for n in RHO.shape]):
                    other[idx] = SComplex(K(Fr(1 + idx[0] + 2 * idx[1] * idx[1] + 3 * idx[2], 5)), 0)
                dist.fill_grid(rho, other)
                qn.getModes(rho)
                rho.setLayout('mode_solve')
                phi.setLayout('mode_solve')
                qn.solveEquation(phi, rho)
                phi.setLayout('v_parallel_2d')
                rho.setLayout('v_parallel_2d')
                qn.findPotential(phi)
                dist.fill_grid(rho, cplx)
            qn.getModes(rho)
            rho.setLayout('mode_solve')
            phi.setLayout('mode_solve')
            qn.solveEquation(phi, rho)
            phi.setLayout('v_parallel_2d')
            rho.setLayout('v_parallel_2d')
            qn.findPotential(phi)
            return phi.getLayout('v_parallel_2d'), np.array(phi.getAllData(), dtype=object)
        return simmpi.World(nranks).run(rankfn)

    for ctx, (kind, val) in symx.explore(body, timeout_ms=60000, index_cap=32, maxpaths=50):
        if kind == 'abort':
            if val.inconclusive:
                res['inconclusive'].append('abort %s %r' % (val.why, item[:7]))
            continue
        res['obligations'] += 1
        def model_rho(mdl):
            try:
                R = st['RHO']
                return [[[float(Fr(symx.model_value(mdl, R[a, b, c]))) for c in range(R.shape[2])] for b in range(R.shape[1])] for a in range(R.shape[0])]
            except Exception:
                return None
        if kind == 'exc':
            prob = None
            if ctx.check() == 'sat':
                prob = float_replay(m, ps, item, model_rho(ctx.model()))
            prob = prob or float_replay(m, ps, item)
            if prob:
                res['violations'].append(('qn:exception', '%s: %s / %s' % (type(val).__name__, str(val)[:120], prob), dict(kind='qn', item=[str(x) for x in item[:7]])))
            else:
                res['inconclusive'].append('exception on the model only: %s %s %r' % (type(val).__name__, str(val)[:200], item[:7]))
            continue
        RHO, rpts, nr = st['RHO'], [symx.fval(p) for p in st['rpts']], st['nr']
        # ---- independent per-mode solution
        T = SO.math_knots(breaks, rdeg, False)
        nb = ncells + rdeg
        from numpy.polynomial.legendre import leggauss
        pts, wts = leggauss((2 * rdeg) // 2 + 1)
        quad = []
        for c in range(ncells):
            lo, hi = breaks[c], breaks[c + 1]
            half, mid = (hi - lo) / 2, (lo + hi) / 2
            for p, w in zip(pts, wts):
                x = mid + symx.rationalise(float(p)) * half
                quad.append((x, symx.rationalise(float(w)) * half, SO.cell_basis(T, rdeg, rdeg + c, x, 0), SO.cell_basis(T, rdeg, rdeg + c, x, 1)))
        mvals = mode_numbers(NQ)
        sols = {}
        colloc_inv = SO.invert(SO.collocation(T, rdeg, False, ncells, rpts))
        for I, mm in enumerate(mvals):
            unknowns = [j for j in range(nb) if (1 <= j <= nb - 2) or (j == 0 and mm == 0)]
            use_c = adiabatic and not (mm == 0 and chi == 1)
            Kmat = [[Fr(0)] * len(unknowns) for _ in unknowns]
            Mmat = [[Fr(0)] * nb for _ in unknowns]
            for (x, w, v, dv) in quad:
                Bc = -(1 / x + n0dn(x))
                Cc = Bf * Bf / Te(x) if use_c else Fr(0)
                Dc = -1 / (x * x)
                Ec = Bf * Bf / n0(x)
                for ia, a in enumerate(unknowns):
                    va, da = v[a], dv[a]
                    if isinstance(va, int) and va == 0 and isinstance(da, int) and da == 0:
                        continue
                    for ib, b in enumerate(unknowns):
                        vb, db = v[b], dv[b]
                        Kmat[ia][ib] += w * ((db * da * x + db * va) + Bc * db * va * x + Cc * vb * va * x - mm * mm * Dc * vb * va * x)
                    for b in range(nb):
                        Mmat[ia][b] += w * Ec * v[b] * va * x
            sols[I] = (unknowns, SO.invert(Kmat), Mmat)
        bad, where = [], []
        for rk, (L, phi) in enumerate(val):
            for li in itertools.product(*[range(n) for n in phi.shape]):
                ir, iz, iq = li[0] + int(L.starts[0]), li[1] + int(L.starts[1]), li[2] + int(L.starts[2])
                # expected: inverse DFT over modes of the radial spline of mode I evaluated at r_ir
                exp_re, exp_im = K(0), K(0)
                for I in range(NQ):
                    unknowns, Kinv, Mmat = sols[I]
                    # DFT of rho over theta for every radial node, as (re, im) linear forms
                    hat = []
                    for jr in range(nr):
                        re, im = K(0), K(0)
                        for jq in range(NQ):
                            wr, wi = W[(jq * I) % NQ]
                            re = re + RHO[jr, jq, iz] * wr
                            im = im + RHO[jr, jq, iz] * wi
                        hat.append((re, im))
                    for part in (0, 1):
                        data = [h[part] for h in hat]
                        coef = [sum((data[j] * colloc_inv[i][j] for j in range(nr) if colloc_inv[i][j] != 0), K(0)) for i in range(nb)]
                        rhs = [sum((coef[b] * Mmat[ia][b] for b in range(nb) if Mmat[ia][b] != 0), K(0)) for ia in range(len(unknowns))]
                        sol = [sum((rhs[j] * Kinv[i][j] for j in range(len(unknowns)) if Kinv[i][j] != 0), K(0)) for i in range(len(unknowns))]
                        full = [K(0)] * nb
                        for ia, a in enumerate(unknowns):
                            full[a] = sol[ia]
                        x = rpts[ir]
                        cell = SO.find_cell_fraction(T, rdeg, x)
                        Bx = SO.cell_basis(T, rdeg, cell, x, 0)
                        v = K(0)
                        for c_, b_ in zip(full, Bx):
                            if not (isinstance(b_, int) and b_ == 0):
                                v = v + c_ * b_
                        # inverse DFT: (1/n) sum_I hat_phi_I * omega^{-I*iq}
                        wr, wi = W[(I * iq) % NQ]
                        wi = -wi
                        if part == 0:
                            exp_re = exp_re + v * wr * K(Fr(1, NQ))
                            exp_im = exp_im + v * wi * K(Fr(1, NQ))
                        else:
                            exp_re = exp_re - v * wi * K(Fr(1, NQ))
                            exp_im = exp_im + v * wr * K(Fr(1, NQ))
                got_re, got_im = cparts(phi[li])
                bad.append(toreal(zt(K(got_re))) != toreal(zt(exp_re)))
                where.append(('potential differs from the per-mode reference', rk, (ir, iq, iz)))
                bad.append(toreal(zt(K(got_im))) != 0)
                where.append(('potential has an imaginary part for a real density', rk, (ir, iq, iz)))
        if NQ in (3, 6):
            # identities over Q(sqrt 3): every disequality is affine in the density values; it is split into the coefficient
            # of each density value (a univariate polynomial in sqrt3), decided under sqrt3^2 = 3
            rvars = [zt(x) for x in np.ravel(RHO)]
            names = set(v.decl().name() for v in rvars)
            split, swhere = [], []
            for b, w in zip(bad, where):
                d = b.arg(0) - b.arg(1) if (z3.is_distinct(b) and b.num_args() == 2) else None
                if d is None or symx.lin_degree(d, names) is None:
                    split.append(b)
                    swhere.append(w)
                    continue
                for nm, c in symx.coefficient_terms(d, rvars).items():
                    split.append(c != 0)
                    swhere.append(w + (nm,))
            bad, where = split, swhere
        r_ = ctx.check(z3.Or(bad)) if bad else 'unsat'
        if r_ == 'unsat':
            res['discharged'] += 1
            res['nontrivial'].append('qn|%r' % (item[:7],))
            if len(res['samples']) < 1:
                res['samples'].append(dict(config=[str(x) for x in item[:7]], facts=len(bad)))
        elif r_ == 'sat':
            mdl = ctx.model()
            hits = [w for w, b in zip(where, bad) if z3.is_true(mdl.eval(b, model_completion=True))][:3]
            prob = float_replay(m, ps, item, model_rho(mdl)) or float_replay(m, ps, item)
            rep = dict(kind='qn', item=[str(x) for x in item[:7]], facts=[str(h) for h in hits], concrete=prob, canary=bool(canary))
            if prob:
                res['violations'].append(('qn:%s' % ('real' if 'imaginary' in hits[0][0] else 'modes'), '%s; %s' % (hits[0], prob), rep))
            else:
                res['inconclusive'].append('model does not reproduce in floats: %r' % rep)
        else:
            res['inconclusive'].append('unknown QN query %r' % (item[:7],))
    numenv.disable()
    if canary:
        undo_canary(None)
    res['stats'] = symx.GLOBAL.as_dict()
    symx.GLOBAL.__init__()
    res['wall'] = round(time.time() - t0, 2)
    res['canary'] = canary[0] if canary else None
    return res


def float_replay(m, ps, item, rho_values=None):
    """real float pipeline (real scipy fft / spsolve) on a random real density vs numpy reference per mode"""
    rdeg, ncells, rpath, nprocs, adiabatic, chi, NQ = item[:7]
    use_n0deriv = len(item) > 8 and item[8]
    numenv.disable()
    try:
        fb = np.linspace(1, 3, ncells + 1)
        kn = m['spl'].make_knots(fb, rdeg, False)
        rb = m['spl'].BSplines(kn, rdeg, False, rpath == 'cu')
        rpts = np.array(rb.greville, dtype=float)
        nr, nz = len(rpts), 2
        eta = [rpts, np.arange(NQ) / NQ, np.arange(nz, dtype=float)]
        rng = np.random.RandomState(8)
        RHO = rng.rand(nr, NQ, nz) - 0.5
        if rho_values is not None and np.shape(rho_values) == RHO.shape:
            RHO = np.array(rho_values, dtype=float)         # the solver's density
        Bf = 1.5
        fn0 = lambda r: 1 + r / 10
        fTe = lambda r: 2 - r / 8
        fdn = lambda r: 0.1 / (1 + r / 10)
        breaks = [Fr(1) + Fr(2 * i, ncells) for i in range(ncells + 1)]
        T = SO.math_knots(breaks, rdeg, False)
        nb = ncells + rdeg
        from numpy.polynomial.legendre import leggauss
        pts, wts = leggauss((2 * rdeg) // 2 + 1)
        X = np.concatenate([(fb[c] + fb[c + 1]) / 2 + pts * (fb[c + 1] - fb[c]) / 2 for c in range(ncells)])
        Wq = np.concatenate([wts * (fb[c + 1] - fb[c]) / 2 for c in range(ncells)])
        cellof = np.concatenate([[c] * len(pts) for c in range(ncells)])
        fbasis = lambda x, cell, der: np.array([float(v) for v in SO.cell_basis(T, rdeg, rdeg + cell, Fr(float(x)), der)])
        V = np.array([fbasis(x, c, 0) for x, c in zip(X, cellof)]).T
        dV = np.array([fbasis(x, c, 1) for x, c in zip(X, cellof)]).T
        colloc = np.array([fbasis(x, SO.find_cell_fraction(T, rdeg, Fr(float(x))) - rdeg, 0) for x in rpts])
        mvals = np.fft.fftfreq(NQ, 1 / NQ)
        ref = np.zeros((nr, NQ, nz), dtype=complex)
        hat = np.fft.fft(RHO, axis=1)
        for I, mm in enumerate(mvals):
            unk = [j for j in range(nb) if (1 <= j <= nb - 2) or (j == 0 and mm == 0)]
            use_c = adiabatic and not (mm == 0 and chi == 1)
            Kmat = np.zeros((nb, nb))
            Mmat = np.zeros((nb, nb))
            for a in range(nb):
                for b in range(nb):
                    Kmat[a, b] = np.sum(Wq * ((dV[b] * dV[a] * X + dV[b] * V[a]) - (1 / X + fdn(X)) * dV[b] * V[a] * X + (Bf * Bf / fTe(X) if use_c else 0) * V[b] * V[a] * X
                                              + mm * mm / (X * X) * V[b] * V[a] * X))
                    Mmat[a, b] = np.sum(Wq * Bf * Bf / fn0(X) * V[b] * V[a] * X)
            for iz in range(nz):
                c = np.linalg.solve(colloc, hat[:, I, iz])
                sol = np.linalg.solve(Kmat[np.ix_(unk, unk)], (Mmat @ c)[unk])
                full = np.zeros(nb, dtype=complex)
                full[unk] = sol
                ref[:, I, iz] = colloc @ full
        ref = np.fft.ifft(ref, axis=1)

        def rankfn(comm):
            with warnings.catch_warnings():
                warnings.simplefilter('ignore')
                h1 = m['layout'].getLayoutHandler(comm, {'v_parallel_2d': [0, 2, 1], 'mode_solve': [1, 2, 0]}, list(nprocs), eta)
                h2 = m['layout'].getLayoutHandler(comm, {'v_parallel_2d': [0, 2, 1], 'mode_solve': [1, 2, 0]}, list(nprocs), eta)
            rho = m['grid'].Grid(eta, [rb, None, None], h1, 'v_parallel_2d', comm=comm, dtype=np.complex128)
            phi = m['grid'].Grid(eta, [rb, None, None], h2, 'v_parallel_2d', comm=comm, dtype=np.complex128)
            dist.fill_grid(rho, RHO.astype(complex))

            class Cst:
                pass
            kw = dict(n0=fn0, B=Bf, Te=fTe, n0derivNormalised=fdn)
            if use_n0deriv:
                del kw['n0derivNormalised']
                kw['n0deriv'] = lambda r: fdn(r) * fn0(r)
            if adiabatic:
                kw['chi'] = chi
            qn = ps.QuasiNeutralitySolver(eta, 2 * rdeg, rb, Cst, adiabaticElectrons=adiabatic, **kw)
            if chi == 1 or not adiabatic:
                other = np.array([[[(1 + a + 2 * b * b + 3 * c) / 5.0 for c in range(nz)] for b in range(NQ)] for a in range(nr)], dtype=complex)
                dist.fill_grid(rho, other)
                qn.getModes(rho)
                rho.setLayout('mode_solve')
                phi.setLayout('mode_solve')
                qn.solveEquation(phi, rho)
                phi.setLayout('v_parallel_2d')
                rho.setLayout('v_parallel_2d')
                qn.findPotential(phi)
                dist.fill_grid(rho, RHO.astype(complex))
            qn.getModes(rho)
            rho.setLayout('mode_solve')
            phi.setLayout('mode_solve')
            qn.solveEquation(phi, rho)
            phi.setLayout('v_parallel_2d')
            rho.setLayout('v_parallel_2d')
            qn.findPotential(phi)
            L = phi.getLayout('v_parallel_2d')
            exp = dist.local_block(ref, L)
            got = phi.getAllData()
            return float(np.max(np.abs(got - exp))) if exp.size else 0.0, float(np.max(np.abs(got.imag))) if exp.size else 0.0
        outs = simmpi.World(int(np.prod(nprocs))).run(rankfn)
    except Exception as e:
        import traceback
        return 'exception %s: %s %s' % (type(e).__name__, e, traceback.format_exc()[-600:])
    finally:
        numenv.enable()
    err, im = max(o[0] for o in outs), max(o[1] for o in outs)
    if err > 1e-8 or im > 1e-10:
        return 'potential differs from the per-mode reference by %.3g (largest imaginary part %.3g)' % (err, im)
    return None


CANARIES = [
    ('m = 0 mode always uses the full stiffness (chi ignored)', 'ps', [("            elif (chi == 1):\n                self._stiffness0 = self._dPhidPsi + self._dPhiPsi",
                                                                    "            elif (chi == 1):\n                self._stiffness0 = self._stiffnessMatrix")], (2, 2, 'nu', (1, 1), True, 1, 4)),
    ('squared mode numbers taken from the local index', 'ps', [("                stiffnessMatrix = (self._stiffnessMatrix - self._mVals[I]*self._k2PhiPsi)[\n                    self._stiffness_range[I], self._stiffness_range[I]]\n\n            # Set Dirichlet boundary conditions\n            # In the case of Neumann boundary conditions these values\n            # will be overwritten\n            self._coeffs[0] = 0\n            self._coeffs[-1] = 0\n\n            self._solveMode(phi, rho, stiffnessMatrix, i, I)\n\n    def solveEquationForFunction",
                                                                "                stiffnessMatrix = (self._stiffnessMatrix - self._mVals[I]*self._k2PhiPsi)[\n                    self._stiffness_range[I], self._stiffness_range[I]]\n\n            # Set Dirichlet boundary conditions\n            # In the case of Neumann boundary conditions these values\n            # will be overwritten\n            self._coeffs[0] = 0\n            self._coeffs[-1] = 0\n\n            self._solveMode(phi, rho, stiffnessMatrix, i, I)\n\n    def solveEquationForFunction")], None),
]


MODE_TOL = 1e-12


def modes_item(nmax):
    """concrete sweep: the table of squared mode numbers the real (float) solver builds for every theta count up to nmax is
    the integer FFT-ordered table 0, 1, ..., -2, -1 squared (to MODE_TOL relative: a last-bit deviation is rounding)"""
    res = H.worker_result()
    m = dist.mods()
    ps = H.repo_import('pygyro.poisson.poisson_solver')
    kn = m['spl'].make_knots(np.linspace(1, 3, 3), 1, False)
    rb = m['spl'].BSplines(kn, 1, False, False)
    nr = len(rb.greville)
    bad = []
    for n in range(1, nmax + 1):
        res['obligations'] += 1
        try:
            with warnings.catch_warnings():
                warnings.simplefilter('ignore')
                got = np.array(ps.DiffEqSolver(2, rb, nr, n)._mVals, dtype=float)
            want = np.array([k * k for k in mode_numbers(n)], dtype=float)
            ok = got.shape == want.shape and bool(np.all(np.abs(got - want) <= MODE_TOL * np.maximum(1.0, want)))
        except Exception as e:
            ok, got, want = False, '%s: %s' % (type(e).__name__, e), None
        if ok:
            res['discharged'] += 1
        else:
            bad.append(n)
            if len(bad) == 1:
                first = (n, got, want)
    if bad:
        n, got, want = first
        where = [int(i) for i in np.nonzero(np.abs(got - want) > MODE_TOL * np.maximum(1.0, want))[0][:4]] if want is not None and np.shape(got) == np.shape(want) else []
        res['violations'].append(('modes:table', 'ntheta = %d: squared mode numbers of the solver %s, of the FFT ordering %s (bins %s); theta counts affected up to %d: %s' % (
            n, [float(got[i]) for i in where] if where else str(got)[:80], [float(want[i]) for i in where] if where else '', where, nmax, bad[:12]),
            dict(kind='modes', ntheta=n, bins=where, affected=bad[:40])))
    else:
        res['nontrivial'].append('modes|%d' % nmax)
    return res


def main():
    run = H.Run(PID, 'proof')
    m = dist.mods()
    ps = H.repo_import('pygyro.poisson.poisson_solver')
    if run.args.replay:
        print(json.dumps(json.load(open(run.args.replay))['replay'], indent=1))
        sys.exit(0)
    Q = ps.QuasiNeutralitySolver
    run.functions = H.src_info(Q.__init__, Q.solveEquation, ps.DiffEqSolver.getModes, ps.DiffEqSolver.findPotential, ps.DiffEqSolver._solveMode, ps.DiffEqSolver.__init__)
    quick = run.tier == 'quick'
    items = []
    for chi in (0, 1):
        items.append((2, 2, 'nu', (1, 1), True, chi, 4, None))
        items.append((2, 2, 'nu', (2, 1), True, chi, 4, None))
        items.append((2, 2, 'nu', (1, 1), True, chi, 3, None))       # odd theta count: twiddles in Q(sqrt 3), no Nyquist mode
    items.append((2, 2, 'nu', (1, 2), False, 0, 4, None))
    items.append((2, 2, 'nu', (1, 1), True, 0, 4, None, True))          # density gradient through the keyword n0deriv
    items.append((2, 2, 'nu', (2, 1), False, 0, 3, None))
    items.append((2, 2, 'nu', (3, 1), True, 1, 3, None))                # three theta processes, one mode each; a solve for another density first
    items.append((1, 2, 'nu', (1, 1), True, 0, 12, None))               # twelve theta points: modes up to |m| = 5 and the Nyquist mode -6
    if not quick:
        for chi in (0, 1):
            items.append((2, 2, 'nu', (2, 1), True, chi, 12, None))
            items.append((3, 2, 'cu', (2, 2), True, chi, 6, None))
            items.append((2, 3, 'nu', (3, 1), True, chi, 6, None))
        items.append((2, 2, 'nu', (1, 2), False, 0, 12, None))
        items.append((1, 2, 'nu', (3, 1), True, 1, 12, None))
        items.append((2, 2, 'nu', (1, 1), True, 0, 6, None, True))
        for chi in (0, 1):
            items.append((3, 2, 'cu', (2, 2), True, chi, 4, None))
            items.append((1, 3, 'nu', (4, 1), True, chi, 4, None))
            items.append((2, 2, 'nu', (1, 2), True, chi, 3, None))
            items.append((1, 2, 'nu', (2, 1), True, chi, 6, None))
            items.append((1, 2, 'nu', (1, 1), True, chi, 2, None))
        items.append((3, 3, 'cu', (2, 1), False, 0, 4, None))
        items.append((2, 2, 'nu', (3, 1), False, 0, 3, None))
    # concrete part: theta counts whose twiddle factors are outside Q(i, sqrt 3) -- the real float pipeline (distributed, after a
    # solve for another density on the same solver) against the independent mode-by-mode reference in floats
    fitems = [(2, 2, 'nu', (3, 1), True, 1, 5, None), (1, 3, 'nu', (4, 1), True, 1, 5, None), (2, 2, 'nu', (3, 1), False, 0, 7, None)]
    if not quick:
        fitems += [(2, 2, 'nu', (3, 1), True, 0, 5, None), (1, 3, 'nu', (4, 1), False, 0, 7, None), (2, 2, 'nu', (2, 2), True, 1, 9, None),
                   (3, 2, 'cu', (3, 1), True, 1, 10, None), (2, 2, 'nu', (3, 1), True, 1, 16, None)]
    for it_ in fitems:
        fr = H.worker_result()
        fr['obligations'] += 1
        prob = H.in_child(float_replay, m, ps, it_)          # in a child: the float run must not leave anything behind for the exact items
        if prob:
            fr['violations'].append(('qn:float', '%s (float pipeline, ntheta = %d on process grid %s)' % (prob, it_[6], list(it_[3])), dict(kind='qn', item=[str(x) for x in it_[:7]], concrete=prob)))
        else:
            fr['discharged'] += 1
            fr['nontrivial'].append('qn-float|%r' % (it_[:7],))
        run.merge(fr)
    run.sections['float_pipeline_items'] = [str(x[:7]) for x in fitems]
    run.merge(modes_item(64 if quick else 600))
    run.sections['mode_number_table'] = 'theta counts 1..%d' % (64 if quick else 600)
    cn = CANARIES[0]
    items.append(cn[3] + (cn[:3],))
    caught = {}
    for r in H.pmap(work, items, run.args.jobs):
        if r.get('canary'):
            run.add_stats(r.get('stats', {}))
            caught[r['canary']] = bool(r['violations'])
            continue
        run.merge(r)
    for cn in CANARIES[:1]:
        hit = caught.get(cn[0], False)
        run.canaries.append(dict(name=cn[0], detected=hit))
        if not hit:
            run.canary_miss(cn[0], caught)
    numenv.enable(extra_modules=[(ps, None)])
    run.stubs = sorted(set(numenv.STUBS)) + ['scipy.fftpack.fft / ifft: their definition (exact DFT) for ntheta in {2,3,4,6,12}: twiddle factors in Q(i) or Q(i, sqrt 3), sqrt 3 a real constant with sqrt3^2 = 3', 'spsolve: exact solve of the concrete rational system (contract A x = b)',
                                             'scipy.sparse: dense stand-in', 'n0, Te, n0\'/n0: rational profile functions passed through the constructor\'s own keyword arguments']
    numenv.disable()
    run.bounds = dict(ntheta='4, 3 and 12 (thorough also 2 and 6)', radial='degrees 1-3, 2-3 cells, uniform breaks', process_grids='(1,1),(2,1),(1,2) (thorough (2,2),(4,1))', electrons='adiabatic chi in {0,1}; kinetic')
    run.outside = ['FFT round trip is the identity (holds by the DFT contract used here, not decided)', 'theta counts other than 2, 3, 4, 6, 12 in the solved part (twiddle factors outside Q(i, sqrt 3)); the mode-number table alone is compared for every theta count up to 64 (thorough 600) concretely',
                   'the equilibrium as a fixed point of the complete time step', 'rounding']
    run.assumptions = ['scipy.fftpack.fft/ifft implement the DFT definition', 'exact reals for doubles', 'spsolve contract']
    run.finish(
        explanation='Real pipeline on a symbolic real density with exact DFT and exact rational per-mode systems; z3 decides for all densities '
                    'that the potential equals the independent mode-by-mode reference (FFT-ordered mode numbers, m^2, m=0 Neumann and chi '
                    'convention, adiabatic term on all other modes) on every rank, and that its imaginary part vanishes identically.',
        rule='case = (radial space, process grid, electron model, chi)')


if __name__ == '__main__':
    main()
