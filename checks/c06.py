"""C06 -- all ranks issue matching collectives; no layout change can deadlock.

(a) Route determinism for every interpreter hash seed: _makeConnectionMap iterates over a set of layout names; the
    iteration order is made symbolic (distinct symbolic priorities, `set`/`min` shadowed in the loaded module), the
    tie-break comparisons fork, every path is a class of iteration orders certified realisable by z3; all paths must
    produce the same route map and every route must be a valid shortest path.
(b) Collective matching: the real LayoutHandler / LayoutSwapper constructors and transposes run on symbolic extents
    on all ranks under the MPI simulator, which raises on any mismatching kind/root/datatype/count (counts compared
    by the solver for all extents) and on deadlock; per-communicator traces of all members are compared.
(c) Data-dependent branches: Grid.getBlockForFig / getBlockFromDict with a symbolic selection, getMin/getMax with
    symbolic fixed index (incl. a plot-only rank owning an empty block), DiagnosticCollector.reduce, setupSave
    (root/non-root x folder given or not): every feasible path must issue the same collective sequence on all ranks.
"""
import itertools
import json
import os
import subprocess
import sys
import time
import warnings

import numpy as np
import z3

from lib import symx, symnp, simmpi
from lib import harness as H
from lib import layoutsym as LS

PID = 'C06'


# ----------------------------------------------------------------------------- (a) routes
class PrioSet:
    """stand-in for set(): iteration order given by symbolic priorities"""

    def __init__(self, items=()):
        self.items = list(items)

    def remove(self, x):
        self.items.remove(x)

    def __len__(self):
        return len(self.items)

    def __contains__(self, x):
        return x in self.items

    def __iter__(self):
        return iter(order_by_priority(self.items))


PRIO = {}


def prio(name):
    if name not in PRIO:
        PRIO[name] = symx.SInt(z3.Int('prio_%s' % name))
    return PRIO[name]


def order_by_priority(items):
    """sort by symbolic priority; each comparison forks (insertion sort)"""
    out = []
    for x in items:
        i = 0
        while i < len(out) and bool(prio(out[i]) < prio(x)):
            i += 1
        out.insert(i, x)
    return out


def sym_min(iterable, key=None):
    """min() over a PrioSet: first key-minimal element in (symbolic) iteration order"""
    items = list(iterable.items) if isinstance(iterable, PrioSet) else list(iterable)
    if key is None:
        return min(items)
    best = None
    for x in items:
        if best is None or key(x) < key(best):
            best = x
        elif key(x) == key(best):
            if bool(prio(x) < prio(best)):
                best = x
    return best


def bfs_dist(graph, a):
    d = {a: 0}
    q = [a]
    while q:
        u = q.pop(0)
        for w in graph[u]:
            if w not in d:
                d[w] = d[u] + 1
                q.append(w)
    return d


def route_item(item):
    graph, = item
    res = H.worker_result()
    real, lay = LS.modules()
    lay2 = H.load_copy('pygyro.model.layout', 'pygyro_model_layout__prio')
    lay2.set = PrioSet
    lay2.min = sym_min
    names = sorted(graph)
    symx.set_bv(None)
    maps = {}

    class Stub(lay2.LayoutManager):
        pass

    def body(ctx):
        PRIO.clear()
        ps = [prio(n).t for n in names]
        ctx.assume(z3.Distinct(*ps))
        s = Stub()
        full = s._makeConnectionMap({k: list(v) for k, v in graph.items()})
        return full, s._route_map

    npaths = 0
    for ctx, (kind, val) in symx.explore(body, timeout_ms=10000, maxpaths=20000):
        npaths += 1
        if kind != 'ok':
            if kind == 'abort' and not val.inconclusive:
                continue
            res['inconclusive'].append('route search: %s %r' % (kind, val))
            continue
        full, rm = val
        key = json.dumps(rm, sort_keys=True)
        if key not in maps:
            m = ctx.model() if ctx.check() == 'sat' else None
            order = None
            if m is not None:
                order = sorted(names, key=lambda n: m.eval(z3.Int('prio_%s' % n), model_completion=True).as_long())
            maps[key] = (rm, order)
    res['obligations'] += 1
    ok = True
    if len(maps) != 1:
        ok = False
        (rm1, o1), (rm2, o2) = list(maps.values())[:2]
        seeds = replay_routes(graph)
        rep = dict(kind='routes', graph=graph, order1=o1, order2=o2, seeds=seeds)
        if seeds:
            res['violations'].append(('routes:nondeterministic', 'route map depends on set iteration order (hash seeds %s vs %s give different maps) for graph %r' % (seeds[0], seeds[1], graph), rep))
        else:
            res['inconclusive'].append('route map differs between iteration orders %s / %s but no PYTHONHASHSEED in 0..60 reproduces it: %r' % (o1, o2, graph))
    else:
        rm = list(maps.values())[0][0]
        for a in names:
            d = bfs_dist(graph, a)
            for b in names:
                if a == b:
                    continue
                route = rm[a][b]
                cur = a
                good = len(route) == d.get(b, -1)
                for step in route:
                    if step not in graph[cur]:
                        good = False
                    cur = step
                if cur != b:
                    good = False
                if not good:
                    ok = False
                    res['violations'].append(('routes:invalid', 'route %s -> %s = %r is not a shortest path of direct connections in %r' % (a, b, route, graph),
                                              dict(kind='routes', graph=graph, a=a, b=b, route=route)))
    if ok:
        res['discharged'] += 1
        res['nontrivial'].append('route|%s|%d' % (json.dumps(graph, sort_keys=True), npaths))
        if len(res['samples']) < 1:
            res['samples'].append(dict(part='routes', graph=graph, iteration_order_classes=npaths))
    res['stats'] = symx.GLOBAL.as_dict()
    symx.GLOBAL.__init__()
    return res


def replay_routes(graph):
    """concrete: real module, different PYTHONHASHSEED per subprocess"""
    code = ("import sys, json, types\n"
            "sys.path.insert(0, %r); sys.path.insert(0, %r)\n"
            "from lib import harness as H\n"
            "H.install_fake_mpi(); lay = H.repo_import('pygyro.model.layout')\n"
            "class S(lay.LayoutManager): pass\n"
            "s = S(); s._makeConnectionMap(json.loads(%r)); print(json.dumps(s._route_map, sort_keys=True))\n") % (H.REPO, H.VERIF, json.dumps(graph))
    seen = {}
    for seed in range(0, 61):
        env = dict(os.environ, PYTHONHASHSEED=str(seed))
        out = subprocess.run([sys.executable, '-c', code], env=env, capture_output=True, text=True).stdout.strip()
        if out:
            seen.setdefault(out, seed)
            if len(seen) > 1:
                return sorted(seen.values())[:2]
    return None


def connected_graphs(n, names):
    """all connected simple graphs on n labelled nodes (labels = names)"""
    pairs = list(itertools.combinations(range(n), 2))
    for mask in range(1 << len(pairs)):
        adj = {i: [] for i in range(n)}
        for k, (a, b) in enumerate(pairs):
            if mask >> k & 1:
                adj[a].append(b)
                adj[b].append(a)
        d = bfs_dist(adj, 0)
        if len(d) == n:
            yield {names[i]: [names[j] for j in adj[i]] for i in range(n)}


# ----------------------------------------------------------------------------- (b) collective matching
def trace_problems(world):
    """per-communicator call sequences must agree between members (kind, root, datatype; counts are compared by the
    simulator through the solver at completion time)"""
    per = {}
    for r, tr in enumerate(world.trace):
        for (op, cid, root, dt, cnt) in tr:
            if op in ('Create_cart', 'Sub'):
                continue
            per.setdefault(cid, {}).setdefault(r, []).append((op, root, str(dt)))
    probs = []
    for cid, byrank in per.items():
        seqs = list(byrank.values())
        for s in seqs[1:]:
            if s != seqs[0]:
                probs.append('members of %s issue different collective sequences: %r vs %r' % (cid, seqs[0][:6], s[:6]))
    return probs


def matching_item(item):
    kind, nprocs, N, seq = item
    res = H.worker_result()
    real, lay = LS.modules()
    nd = 3
    symx.set_bv(LS.bv_width(max(nprocs), N, nd))
    from checks.c03 import DRIVER3
    groups, gprocs = DRIVER3['groups'], DRIVER3['procs'](*nprocs)
    sets = [(g, [p] if isinstance(p, int) else list(p)) for g, p in zip(groups, gprocs)]
    mins = LS.min_extents(nd, sets)
    size = nprocs[0] * nprocs[1]
    st = {}

    def body(ctx):
        ns = LS.extent_vars(ctx, nd, N, mins)
        st['ns'] = ns
        eta = [symnp.SymLen(symx.SInt(v)) for v in ns]
        junk = z3.Function('junk', symx.isort(), symx.isort(), symx.isort(), symnp.VAL)
        world = simmpi.World(size)
        st['world'] = world

        def rankfn(comm):
            r = comm.Get_rank()
            with warnings.catch_warnings():
                warnings.simplefilter('ignore')
                sw = lay.LayoutSwapper(comm, [dict(g) for g in groups], [p if isinstance(p, int) else list(p) for p in gprocs], eta, seq[0])
                bufs = [symnp.new_array('m%d_%d' % (r, k), sw.bufferSize, (lambda k: (lambda pos: junk(symx.ival(r), symx.ival(k), pos)))(k)) for k in range(3)]
                cur = 0
                for a, b in zip(seq[:-1], seq[1:]):
                    sw.transpose(bufs[cur], bufs[1 - cur], a, b, bufs[2] if kind == 'buf' else None)
                    cur = 1 - cur
            return True
        world.run(rankfn)
        return world

    for ctx, (k, val) in symx.explore(body, timeout_ms=60000):
        if k == 'abort':
            if val.inconclusive:
                res['inconclusive'].append('abort %s' % val.why)
            continue
        res['obligations'] += 1
        if k == 'exc':
            shape = None
            if ctx.check() == 'sat':
                m = ctx.model()
                shape = [m.eval(v, model_completion=True).as_signed_long() for v in st['ns']]
            if isinstance(val, (simmpi.MPIMismatch, simmpi.Deadlock)) and shape is not None:
                prob = concrete_matching(nprocs, shape, seq, kind)
                rep = dict(kind='matching', nprocs=nprocs, shape=shape, seq=seq, symbolic=str(val), concrete=prob)
                if prob:
                    res['violations'].append(('matching', '%s: %s' % (type(val).__name__, prob), rep))
                else:
                    res['inconclusive'].append('collective mismatch on the model only: %r' % rep)
            elif isinstance(val, NotImplementedError):
                res['inconclusive'].append('model limitation %r' % (val,))
            else:
                res['inconclusive'].append('exception (reported under C03): %s %s' % (type(val).__name__, str(val)[:100]))
            continue
        probs = trace_problems(val)
        if probs:
            res['violations'].append(('matching:trace', probs[0], dict(kind='matching', nprocs=nprocs, seq=seq)))
        else:
            res['discharged'] += 1
            ncol = sum(1 for tr in val.trace for t in tr if t[0] not in ('Create_cart', 'Sub'))
            res['nontrivial'].append('match|%s|%s|%s|%d|%d' % (nprocs, seq, kind, len(ctx.decisions), ncol))
            if len(res['samples']) < 1:
                res['samples'].append(dict(part='matching', nprocs=nprocs, sequence=seq, collectives_on_rank0=[t[0] for t in val.trace[0]][:12]))
    res['stats'] = symx.GLOBAL.as_dict()
    symx.GLOBAL.__init__()
    return res


def concrete_matching(nprocs, shape, seq, kind):
    real, _ = LS.modules()
    from checks.c03 import DRIVER3
    groups, gprocs = DRIVER3['groups'], DRIVER3['procs'](*nprocs)
    eta = [np.arange(n, dtype=float) for n in shape]

    def rankfn(comm):
        with warnings.catch_warnings():
            warnings.simplefilter('ignore')
            sw = real.LayoutSwapper(comm, [dict(g) for g in groups], [p if isinstance(p, int) else list(p) for p in gprocs], eta, seq[0])
            bufs = [np.zeros(sw.bufferSize) for _ in range(3)]
            cur = 0
            for a, b in zip(seq[:-1], seq[1:]):
                sw.transpose(bufs[cur], bufs[1 - cur], a, b, bufs[2] if kind == 'buf' else None)
                cur = 1 - cur
    try:
        simmpi.World(nprocs[0] * nprocs[1]).run(rankfn)
    except (simmpi.MPIMismatch, simmpi.Deadlock) as e:
        return '%s: %s' % (type(e).__name__, e)
    except Exception as e:
        return None
    return None


# ----------------------------------------------------------------------------- (c) data-dependent branches
def branches_item(item):
    what, nprocs, plot = item[:3]
    seldims = item[3] if len(item) > 3 else ()
    res = H.worker_result()
    H.install_fake_mpi()
    layout = H.repo_import('pygyro.model.layout')
    gridm = H.repo_import('pygyro.model.grid')
    symx.set_bv(None)
    shape = (4, 3, 4, 3)
    nranks = int(np.prod(nprocs)) + (1 if plot else 0)
    layouts = {'flux_surface': [0, 3, 1, 2], 'v_parallel': [0, 2, 1, 3], 'poloidal': [3, 2, 1, 0]}
    eta = [np.arange(n, dtype=float) for n in shape]
    st = {}

    def body(ctx):
        world = simmpi.World(nranks)
        st['world'] = world
        sel = {}
        if what in ('block', 'block_sub'):
            # symbolic selection: on the chosen dimensions a range [lo,hi) (hi = lo+1 is a single index, lo = hi selects
            # nothing), everything on the others
            for d in seldims:
                lo, hi = z3.Int('lo%d' % d), z3.Int('hi%d' % d)
                ctx.assume(z3.And(lo >= 0, lo <= hi, hi <= shape[d]))
                sel[d] = (symx.SInt(lo), symx.SInt(hi))
        elif what == 'minmax':
            fd = z3.Int('fixdim')
            ctx.assume(z3.And(fd >= -1, fd < 4))
            sel['fd'] = int(symx.SInt(fd))
            if sel['fd'] >= 0:
                fv = z3.Int('fixval')
                ctx.assume(z3.And(fv >= 0, fv < shape[sel['fd']]))
                sel['fv'] = int(symx.SInt(fv))
        st['sel'] = sel
        return run_world(world, sel)

    def run_world(world, sel):
        def rankfn(comm):
            rank = comm.Get_rank()
            draw = 0
            if plot:
                lc = comm.Split(rank == draw, rank)
            else:
                lc = comm
            if plot and rank == draw:
                h = layout.getLayoutHandler(lc, dict(layouts), [1, 1], [[], [], [], []])
            else:
                h = layout.getLayoutHandler(lc, dict(layouts), list(nprocs), eta)
            g = gridm.Grid(eta, [None] * 4, h, 'v_parallel', comm=comm)
            if g.getAllData().size:
                g.getAllData()[...] = 1.0 + rank
            if what == 'minmax':
                if sel['fd'] < 0:
                    g.getMin(draw)
                    g.getMax(draw)
                else:
                    g.getMin(draw, sel['fd'], sel['fv'])
                    g.getMax(draw, sel['fd'], sel['fv'])
            elif what in ('block', 'block_sub'):
                L = h.getLayout('v_parallel')
                dims = []
                for dglob in L.dims_order:
                    s = sel.get(dglob)
                    if s is None:
                        dims.append(None)
                    elif isinstance(s, tuple):
                        dims.append(SymRange(s[0], s[1]))
                    else:
                        dims.append(SymRange(s, s + 1))
                if what == 'block_sub':
                    # the communicator handed to getBlockForFig numbers the processes differently from the grid's own
                    # communicator (reversed order); the root is given in the numbering of the communicator handed over
                    sub = comm.Split(0, comm.Get_size() - 1 - rank)
                    g.getBlockForFig(dims, sub, 0)
                    g.getBlockForFig(dims, sub, sub.Get_size() - 1)
                else:
                    g.getBlockForFig(dims, comm, draw)
                    g.getBlockForFig(dims, comm, comm.Get_size() - 1)
            return True
        world.run(rankfn)
        return world

    def concrete_replay(mdl):
        """the same ranks on the selection values of the solver's model, nothing symbolic"""
        sel = {}
        for d, v in st['sel'].items():
            if isinstance(v, tuple):
                sel[d] = tuple(int(symx.model_value(mdl, x)) if isinstance(x, symx.Sym) else int(x) for x in v)
            else:
                sel[d] = int(symx.model_value(mdl, v)) if isinstance(v, symx.Sym) else v
        try:
            run_world(simmpi.World(nranks), sel)
        except Exception as e:
            return '%s: %s' % (type(e).__name__, str(e)[:200]), sel
        return None, sel

    for ctx, (k, val) in symx.explore(body, timeout_ms=30000, index_cap=16):
        if k == 'abort':
            if val.inconclusive:
                res['inconclusive'].append('abort %s' % val.why)
            continue
        res['obligations'] += 1
        if k == 'exc':
            if isinstance(val, (simmpi.MPIMismatch, simmpi.Deadlock)):
                m = ctx.model() if ctx.check() == 'sat' else None
                res['violations'].append(('branches:%s' % what, '%s: %s' % (type(val).__name__, str(val)[:200]),
                                          dict(kind='branches', what=what, nprocs=nprocs, plot=plot, model=str(m)[:500])))
            else:
                prob = None
                if ctx.check() == 'sat':
                    prob, csel = concrete_replay(ctx.model())
                if prob:
                    res['violations'].append(('branches:%s:exception' % what, 'a rank raises inside the collective sequence (the others block): %s; selection %s' % (prob, csel),
                                              dict(kind='branches', what=what, nprocs=nprocs, plot=plot, selection=str(csel))))
                else:
                    res['inconclusive'].append('%s: exception %s: %s' % (what, type(val).__name__, str(val)[:200]))
            continue
        probs = trace_problems(val)
        if probs:
            res['violations'].append(('branches:%s' % what, probs[0], dict(kind='branches', what=what, nprocs=nprocs, plot=plot)))
        else:
            res['discharged'] += 1
            res['nontrivial'].append('%s|%s|%s|%s' % (what, nprocs, plot, ''.join('T' if d['choice'] else 'F' for d in ctx.decisions)))
            if len(res['samples']) < 1:
                res['samples'].append(dict(part=what, nprocs=nprocs, plot_rank=plot, trace_rank0=[t[0] for t in val.trace[0]]))
    res['stats'] = symx.GLOBAL.as_dict()
    symx.GLOBAL.__init__()
    return res


class SymRange:
    """range-like with symbolic start/stop as getBlockForFig uses them (.start/.stop only)"""

    def __init__(self, start, stop):
        self.start = start
        self.stop = stop


def dtype_item(item):
    """concrete part (nothing symbolic): a Grid of the given dtype, with or without save memory, walks through layout changes,
    save and restore on every rank of the simulated grid; every Alltoall must pair buffers of one datatype and all buffers of the
    grid must have the dtype asked for"""
    nprocs, dtype_name, save = item
    res = H.worker_result()
    H.install_fake_mpi()
    layout = H.repo_import('pygyro.model.layout')
    gridm = H.repo_import('pygyro.model.grid')
    shape = (4, 3, 4, 3)
    layouts = {'flux_surface': [0, 3, 1, 2], 'v_parallel': [0, 2, 1, 3], 'poloidal': [3, 2, 1, 0]}
    eta = [np.arange(n, dtype=float) for n in shape]
    dt = dict(float=float, complex=np.complex128)[dtype_name]
    world = simmpi.World(int(np.prod(nprocs)))

    def rankfn(comm):
        h = layout.getLayoutHandler(comm, dict(layouts), list(nprocs), eta)
        g = gridm.Grid(eta, [None] * 4, h, 'v_parallel', comm=comm, dtype=dt, allocateSaveMemory=save)
        g.getAllData()[...] = 1.0 + comm.Get_rank()
        g.setLayout('flux_surface')
        g.setLayout('poloidal')
        if save:
            g.saveGridValues()
            g.setLayout('v_parallel')
            g.restoreGridValues()
        g.setLayout('v_parallel')
        return str(g.getAllData().dtype)
    res['obligations'] += 1
    try:
        import warnings
        with warnings.catch_warnings():
            warnings.simplefilter('ignore')
            out = world.run(rankfn)
        want = np.dtype(dt).name
        if any(o != want for o in out):
            res['violations'].append(('branches:dtype', 'a %s grid (save memory %s) ends with data of dtype %s on process grid %s' % (want, save, sorted(set(out)), list(nprocs)),
                                      dict(kind='dtype', item=[list(nprocs), dtype_name, save])))
        else:
            res['discharged'] += 1
            res['nontrivial'].append('dtype|%s|%s|%s' % (nprocs, dtype_name, save))
    except (simmpi.MPIMismatch, simmpi.Deadlock) as e:
        res['violations'].append(('branches:dtype', '%s grid, save memory %s, process grid %s: %s: %s' % (dtype_name, save, list(nprocs), type(e).__name__, str(e)[:200]),
                                  dict(kind='dtype', item=[list(nprocs), dtype_name, save])))
    except Exception as e:
        res['violations'].append(('branches:dtype', '%s grid, save memory %s, process grid %s: a rank raises %s: %s' % (dtype_name, save, list(nprocs), type(e).__name__, str(e)[:200]),
                                  dict(kind='dtype', item=[list(nprocs), dtype_name, save])))
    return res


def setupsave_item(item):
    """root/non-root x folder given/not: broadcast pairing (os and print stubbed)"""
    nranks, given = item
    res = H.worker_result()
    H.install_fake_mpi()
    st = H.load_copy('pygyro.utilities.savingTools', 'pygyro_utilities_savingTools__stub')

    made = set()       # one file system shared by all ranks: a folder exists once some rank has created it

    class FakeOS:
        class path:
            @staticmethod
            def isdir(p):
                return p in made

        @staticmethod
        def mkdir(p):
            made.add(p)
    st.os = FakeOS
    st.open = lambda *a, **k: open(os.devnull, 'w')
    world = simmpi.World(nranks)

    def rankfn(comm):
        return st.setupSave('constants', 'folder' if given else None, comm=comm, root=0)
    res['obligations'] += 1
    try:
        out = world.run(rankfn)
        probs = trace_problems(world)
        if len(set(out)) != 1:
            probs.append('ranks disagree on the folder name: %r' % (out,))
        if probs:
            res['violations'].append(('branches:setupSave', probs[0], dict(kind='setupSave', nranks=nranks, given=given)))
        else:
            res['discharged'] += 1
            res['nontrivial'].append('setupSave|%d|%s' % (nranks, given))
    except (simmpi.MPIMismatch, simmpi.Deadlock) as e:
        res['violations'].append(('branches:setupSave', '%s: %s' % (type(e).__name__, e), dict(kind='setupSave', nranks=nranks, given=given)))
    return res


def main():
    run = H.Run(PID, 'proof')
    real, lay = LS.modules()
    if run.args.replay:
        rp = json.load(open(run.args.replay))['replay']
        if rp.get('kind') == 'routes':
            print(replay_routes(rp['graph']))
        elif rp.get('kind') == 'matching':
            print(concrete_matching(rp['nprocs'], rp['shape'], rp['seq'], 'nobuf'))
        else:
            print(json.dumps(rp, indent=1))
        sys.exit(0)
    gridm = H.repo_import('pygyro.model.grid')
    run.functions = H.src_info(real.LayoutManager._makeConnectionMap, real.LayoutSwapper.__init__, real.LayoutSwapper.transpose,
                               real.LayoutHandler._rearrange_from_buffer, gridm.Grid.getBlockForFig, gridm.Grid.getMin, gridm.Grid.getMax)
    quick = run.tier == 'quick'
    # (a)
    items = []
    nmax = 4 if quick else 5
    for n in range(2, nmax + 1):
        base = ['alpha', 'beta', 'gamma', 'delta', 'eps'][:n]
        perms = [base] if (quick and n == 4) or (not quick and n == 5) else list(itertools.permutations(base))
        if n == 4 and quick:
            perms = [base, ['delta', 'alpha', 'gamma', 'beta'], ['beta', 'delta', 'alpha', 'gamma']]
        if n == 5:
            perms = [base, ['eps', 'beta', 'alpha', 'delta', 'gamma']]
        for names in perms:
            for g in connected_graphs(n, list(names)):
                items.append((g,))
    # every connected graph on 6 nodes up to isomorphism (networkx atlas) under several name assignments: two equally long
    # routes sharing their first step only exist from 5-6 nodes on
    import random as _random
    import networkx as nx
    from networkx.generators.atlas import graph_atlas_g
    six = [g for g in graph_atlas_g() if g.number_of_nodes() == 6 and nx.is_connected(g)]
    names6 = ['alpha', 'beta', 'gamma', 'delta', 'eps', 'zeta']
    labelings = [list(names6), list(reversed(names6))]
    rnd = _random.Random(run.seed + 17)
    for _ in range(0 if quick else 4):
        lab = list(names6)
        rnd.shuffle(lab)
        labelings.append(lab)
    for g in six:
        for lab in labelings:
            items.append(({lab[i]: [lab[j] for j in g.neighbors(i)] for i in range(6)},))
    # the driver's own layout graphs
    items.append(({'v_parallel_2d': ['mode_solve', 'v_parallel_1d'], 'mode_solve': ['v_parallel_2d'], 'v_parallel_1d': ['v_parallel_2d', 'poloidal'], 'poloidal': ['v_parallel_1d']},))
    items.append(({'flux_surface': ['v_parallel'], 'v_parallel': ['flux_surface', 'poloidal'], 'poloidal': ['v_parallel']},))
    run.sections['route_graphs'] = len(items)
    for r in H.pmap(route_item, items, run.args.jobs, chunksize=8):
        run.merge(r)
    # (b)
    names3 = ['v_parallel_2d', 'mode_solve', 'v_parallel_1d', 'poloidal']
    seqs = [['mode_solve', 'v_parallel_2d', 'v_parallel_1d', 'poloidal', 'mode_solve'], ['poloidal', 'mode_solve', 'v_parallel_1d', 'v_parallel_2d', 'poloidal'],
            ['v_parallel_1d', 'mode_solve', 'poloidal', 'v_parallel_2d']]
    mitems = []
    for grid in ([(1, 2), (2, 2)] if quick else [(1, 2), (2, 1), (2, 2), (1, 3), (3, 1), (2, 3), (3, 3)]):
        for s in seqs:
            for kind in ('nobuf', 'buf'):
                mitems.append((kind, list(grid), 3, s))
    for r in H.pmap(matching_item, mitems, run.args.jobs):
        run.merge(r)
    run.sections['matching_sequences'] = len(mitems)
    # (c)
    bitems = []
    for grid in ([(2, 1), (2, 2)] if quick else [(1, 1), (2, 1), (1, 2), (2, 2), (3, 1), (2, 3)]):
        for plot in (False, True):
            bitems.append(('minmax', list(grid), plot))
    for grid in ([(2, 1)] if quick else [(2, 1), (1, 2), (2, 2)]):
        for plot in (False, True):
            for seldims in ([(0,), (2, 3)] if quick else [(0,), (1,), (2,), (3,), (0, 2), (0, 3), (2, 3), (1, 3)]):
                bitems.append(('block', list(grid), plot, seldims))
    for grid in ([(2, 1)] if quick else [(2, 1), (2, 2)]):
        bitems.append(('block_sub', list(grid), False, (0,)))
        bitems.append(('block_sub', list(grid), True, (2, 3)))
    for r in H.pmap(branches_item, bitems, run.args.jobs):
        run.merge(r)
    for n in (1, 2, 3):
        for given in (False, True):
            run.merge(setupsave_item((n, given)))
    for grid in ([(2, 1), (2, 2)] if quick else [(2, 1), (1, 2), (2, 2), (3, 1)]):
        for dn in ('float', 'complex'):
            for save in (False, True):
                run.merge(dtype_item((grid, dn, save)))
    run.stubs = LS.stubs() + ['set / min in a copy of pygyro.model.layout: symbolic iteration-order priorities', 'mpi4py.MPI: lib/simmpi (raises on mismatch, detects deadlock)',
                              'os / open in a copy of savingTools']
    run.bounds = dict(routes='every connected graph on <= %d named nodes (all / several name assignments) and all 112 connected 6-node graphs up to isomorphism under %d name assignments, all iteration orders' % (nmax, len(labelings)),
                      matching='driver swapper, grids %s, transposition sequences of length 3-4, extents <= 3' % ('(1,2),(2,2)' if quick else 'up to (3,3)'),
                      branches='4-D grid (4,3,4,3), symbolic selections / fixed indices, with and without a plot-only rank')
    run.outside = ['layout graphs with more nodes', 'DiagnosticCollector.reduce and the driver loop (straight-line sequences; covered through C17/C18 runs)',
                   'setupCylindricalGrid/setupFromFile are exercised through their constituent calls (Split, getLayoutHandler with empty grids), not end to end']
    run.assumptions = ['blocking collectives match per communicator in call order (MPI standard); deterministic programs: matching + consistent order is independent of arrival order',
                       'hash seeds only influence the iteration order of the set of layout names']
    nstates = len(run.nontrivial)
    run.finish(
        explanation='(a) symbolic set-iteration order: all classes of orders give one route map, each route a valid shortest path. '
                    '(b) real constructors/transposes on symbolic extents on all ranks: simulator raises on any mismatch (counts decided by z3 for '
                    'all extents) or deadlock; per-communicator traces equal. (c) symbolic selections drive every branch of '
                    'getBlockForFig/getMin/getMax incl. empty-block plot rank; setupSave root/non-root pairing.',
        rule='case = graph x iteration-order class; (grid, sequence, buffer) x class of extents; (operation, grid, plot rank) x selection class')


if __name__ == '__main__':
    main()
