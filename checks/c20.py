"""C20 -- process-grid selection returns a valid factorisation or reports none exists.

The real compute_2d_process_grid_from_max / compute_2d_process_grid are executed by CPython on
symbolic Int arguments (symx); mpi_size is enumerated, max_proc1/max_proc2 (resp. the four grid
sizes) are SMT variables in [1, M].  Every path is then closed by solver queries.
"""
import signal
import sys
import time

import z3

from lib import symx
from lib.symx import SInt, explore, Abort
from lib import harness as H

PID = 'C20'
DECISION_BOUND_FACTOR = 8     # a path may take at most 8*(mpi_size+M+4)+64 symbolic decisions (termination bound)


def brute(max1, max2, size):
    return [(d, size // d) for d in range(1, size + 1) if size % d == 0 and d <= max1 and size // d <= max2]


def replay_concrete(pg, max1, max2, size, npts=None):
    """run the real float code; returns (kind, value, problem or None)"""
    def alarm(*a):
        raise TimeoutError('no termination within 10 s')
    old = signal.signal(signal.SIGALRM, alarm)
    signal.alarm(10)
    try:
        try:
            if npts is not None:
                r = pg.compute_2d_process_grid(list(npts), size)
            else:
                r = pg.compute_2d_process_grid_from_max(max1, max2, size)
            kind = 'ok'
        except RuntimeError as e:
            r, kind = repr(e), 'RuntimeError'
        except TimeoutError as e:
            return 'timeout', None, 'search does not terminate'
        except Exception as e:
            return 'exc', repr(e), 'unexpected exception %r' % (e,)
    finally:
        signal.alarm(0)
        signal.signal(signal.SIGALRM, old)
    fits = brute(max1, max2, size)
    if kind == 'ok':
        n1, n2 = r
        import numbers
        if not all(isinstance(v, numbers.Integral) and not isinstance(v, bool) for v in (n1, n2)):
            return kind, r, 'returned grid %r has an extent that is not an integer (%s, %s): it cannot be a process count (Create_cart, range bounds, block starts)' % (
                r, type(n1).__name__, type(n2).__name__)
        if n1 * n2 != size or not (1 <= n1 <= max1) or not (1 <= n2 <= max2):
            return kind, r, 'returned grid %r is not a valid factorisation of %d within maxima (%d,%d)' % (r, size, max1, max2)
        return kind, r, None
    if fits:
        return kind, r, 'RuntimeError although %r fits' % (fits[0],)
    return kind, r, None


def work(item):
    mode, size, M, tmo, canary = item
    res = H.worker_result()
    pg = H.repo_import('pygyro.model.process_grid')
    if canary is not None:
        pg = H.mutant_module(pg, canary)
    t0 = time.time()
    bound = DECISION_BOUND_FACTOR * (size + M + 4) + 64        # both loops advance a counter bounded by min(mpi_size, max_proc1)
    reach = 0
    state = {}

    def body(ctx):
        if mode == 'max':
            m1, m2 = z3.Int('max1'), z3.Int('max2')
            ctx.assume(z3.And(m1 >= 1, m1 <= M, m2 >= 1, m2 <= M))
            state['vars'] = (m1, m2)
            state['m'] = (m1, m2)
            return pg.compute_2d_process_grid_from_max(SInt(m1), SInt(m2), size)
        n = [z3.Int('npts%d' % i) for i in range(4)]
        for v in n:
            ctx.assume(z3.And(v >= 1, v <= M))
        state['vars'] = tuple(n)
        state['m'] = None
        state['n'] = n
        return pg.compute_2d_process_grid([SInt(v) for v in n], size)

    class Watch:
        pass

    def guard(ctx):
        # termination bound: symbolic decisions per path
        orig = ctx.fork_bool

        def fb(cond, cand=None):
            if ctx.pos > bound:
                raise Abort('loop bound', inconclusive=False)
            return orig(cond, cand)
        ctx.fork_bool = fb

    divisors = [d for d in range(1, size + 1) if size % d == 0]
    for ctx, (kind, val) in explore(body, timeout_ms=tmo, setup=guard):
        if res['violations']:
            break          # one confirmed witness per process count is enough
        if mode == 'max':
            m1, m2 = state['vars']
            e1, e2 = m1, m2
        else:
            n = state['n']
            e1 = z3.If(n[0] < n[3], n[0], n[3])
            e2 = z3.If(n[2] < n[3], n[2], n[3])

        def concrete_witness(extra):
            r = ctx.check(*extra)
            if r != 'sat':
                return r, None
            m = ctx.model()
            vals = [m.eval(v, model_completion=True).as_long() for v in state['vars']]
            return r, vals

        def confirm(vals, what):
            if mode == 'max':
                k, r, prob = replay_concrete(pg, vals[0], vals[1], size)
                key = 'from_max'
            else:
                k, r, prob = replay_concrete(pg, min(vals[0], vals[3]), min(vals[2], vals[3]), size, npts=vals)
                key = 'npts'
            rep = dict(mode=mode, mpi_size=size, args=vals, symbolic=what, concrete=[k, str(r)], canary=bool(canary))
            if prob is not None:
                res['violations'].append((key, prob + ' [args %r mpi_size %d]' % (vals, size), rep))
            else:
                res['inconclusive'].append('model does not reproduce on real code: %r' % rep)

        if kind == 'abort':
            if val.why == 'loop bound':
                r, vals = concrete_witness([])
                if vals is not None:
                    confirm(vals, 'more than %d decisions on one path (non-termination candidate)' % bound)
                else:
                    res['inconclusive'].append('loop bound hit, no model')
            elif val.inconclusive:
                res['inconclusive'].append('abort %s (mpi_size=%d)' % (val.why, size))
            continue
        reach += 1
        if kind == 'ok':
            n1, n2 = val
            if not all(isinstance(v, (int, SInt)) and not isinstance(v, bool) for v in (n1, n2)):
                # an extent of another type (true division gives a real): decided on the real code at a point of this path
                res['obligations'] += 1
                r, vals = concrete_witness([])
                if vals is not None:
                    confirm(vals, 'returned extents of types (%s, %s)' % (type(n1).__name__, type(n2).__name__))
                else:
                    res['inconclusive'].append('non-integer return type without model (mpi_size=%d)' % size)
                continue
            t1, t2 = symx.zt(n1), symx.zt(n2)
            bad = z3.Or(t1 * t2 != size, t1 < 1, t1 > e1, t2 < 1, t2 > e2)
            res['obligations'] += 1
            r, vals = concrete_witness([bad])
            if r == 'unsat':
                res['discharged'] += 1
            elif r == 'sat':
                confirm(vals, 'returned (%s,%s) violates the factorisation / bounds' % (n1, n2))
            else:
                res['inconclusive'].append('unknown on return-validity query mpi_size=%d' % size)
            # differential validation of the encoding against the float code on one model of this path
            r, vals = concrete_witness([])
            if vals is not None:
                if mode == 'max':
                    k, rr, prob = replay_concrete(pg, vals[0], vals[1], size)
                else:
                    k, rr, prob = replay_concrete(pg, min(vals[0], vals[3]), min(vals[2], vals[3]), size, npts=vals)
                if isinstance(n1, int) and isinstance(n2, int) and (k != 'ok' or tuple(rr) != (n1, n2)):
                    res['inconclusive'].append('float code and exact encoding disagree: args %r size %d: %r vs %r'
                                               % (vals, size, (n1, n2), rr))
                res['nontrivial'].append('%s:%d:%r' % (mode, size, (n1, n2)))
                if len(res['samples']) < 2:
                    res['samples'].append(dict(mpi_size=size, args=vals, returned=[int(n1), int(n2)], path_decisions=len(ctx.decisions)))
        else:
            res['obligations'] += 1
            if not isinstance(val, RuntimeError):
                r, vals = concrete_witness([])
                if vals is not None:
                    confirm(vals, 'unexpected exception %r' % (val,))
                else:
                    res['inconclusive'].append('exception %r without model' % (val,))
                continue
            fits = z3.Or([z3.And(d <= e1, size // d <= e2) for d in divisors])
            r, vals = concrete_witness([fits])
            if r == 'unsat':
                res['discharged'] += 1
                res['nontrivial'].append('%s:%d:RuntimeError:%d' % (mode, size, reach))
            elif r == 'sat':
                confirm(vals, 'RuntimeError raised although a factorisation fits')
            else:
                res['inconclusive'].append('unknown on error-exactness query mpi_size=%d' % size)
        res['stats'] = {}
    # vacuity: at least one path must reach an assertion
    if reach == 0:
        res['inconclusive'].append('no path reached an assertion for mpi_size=%d' % size)
    res['stats'] = symx.GLOBAL.as_dict()
    symx.GLOBAL.__init__()
    res['wall'] = time.time() - t0
    res['item'] = [mode, size]
    res['canary'] = canary
    return res


CANARIES = [
    ('divisor scan stops one early', [("while (nprocs1 <= min(mpi_size, max_proc1) and mpi_size % nprocs1 != 0)",
                                       "while (nprocs1 < min(mpi_size, max_proc1) and mpi_size % nprocs1 != 0)")]),
    ('error test off by one', [("if (nprocs1 > min(mpi_size, max_proc1)):\n            raise",
                                "if (nprocs1 >= min(mpi_size, max_proc1)):\n            raise")]),
    ('valid initial grid rejected', [("while (nprocs2 > max_proc2):", "while (nprocs2 >= max_proc2):")]),
    ('improved grid taken without divisor test', [("while (new_n1 < max_proc1 and mpi_size % new_n1 != 0):", "while (new_n1 < max_proc1 - 1 and mpi_size % new_n1 != 0):")]),
]


# ----------------------------------------------------------------------------- set-up wiring
class _SymComm:
    """communicator stand-in for the two set-up functions: concrete size, symbolic rank"""

    def __init__(self, size, rank, tag):
        self.size, self.rank, self.tag = size, rank, tag

    def Get_size(self):
        return self.size

    def Get_rank(self):
        return self.rank

    def Split(self, color=0, key=0):
        # members with the same colour form the new communicator; the colour used by the set-ups is `rank == drawRank`
        if bool(color):
            return _SymComm(1, 0, self.tag + '/plot')
        return _SymComm(self.size - 1, None, self.tag + '/workers')


def wiring_item(item):
    """the real setupCylindricalGrid / setupFromFile (a fresh copy of setups.py with recording stand-ins for the layout
    manager, Grid, initialisers, glob and the constants file) on a communicator of P processes whose rank is symbolic:
    the process grid handed to getLayoutHandler must multiply to the size of the communicator handed over with it, on
    every rank (plot rank included)."""
    which, P, plot, draw = item
    res = H.worker_result()
    H.install_fake_mpi()
    import types
    setups = H.load_copy('pygyro.initialisation.setups', 'pygyro.initialisation._wiring_setups_%s_%d' % (which, P))
    consts_mod = H.repo_import('pygyro.initialisation.constants')
    rec = []

    def handler(comm, layouts, nprocs, eta, **k):
        rec.append((comm, list(nprocs), [len(e) for e in eta]))
        return types.SimpleNamespace()

    class FakeGrid:
        def __init__(self, *a, **k):
            pass

        def setLayout(self, *a):
            pass
    setups.getLayoutHandler = handler
    setups.Grid = FakeGrid
    for nm in ('initialise_flux_surface', 'initialise_poloidal', 'initialise_v_parallel'):
        setattr(setups, nm, lambda *a, **k: None)
    setups.glob = lambda pattern: []

    def consts(*a):
        c = consts_mod.Constants()
        c.npts = [8, 8, 8, 8]
        return c
    setups.get_constants = consts
    setups.Constants = consts
    symx.set_bv(None)

    def body(ctx):
        del rec[:]
        rk = z3.Int('rank')
        ctx.assume(z3.And(rk >= 0, rk < P))
        comm = _SymComm(P, SInt(rk), 'world')
        kw = dict(comm=comm, plotThread=plot, drawRank=draw)
        if which == 'fresh':
            setups.setupCylindricalGrid('v_parallel', **kw)
        else:
            setups.setupFromFile('nowhere', layout='v_parallel', **kw)
        return list(rec)

    def replay():
        """all P ranks concretely under the MPI simulator with the REAL getLayoutHandler (real Create_cart / Sub / layouts)"""
        from lib import simmpi
        real_layout = H.repo_import('pygyro.model.layout')
        real_grid = H.repo_import('pygyro.model.grid')
        setups.getLayoutHandler = real_layout.getLayoutHandler

        class GridNoFile(real_grid.Grid):          # the real Grid; only the file access of a restart is left out
            def loadFromFile(self, *a, **k):
                pass
        setups.Grid = GridNoFile

        def rankfn(comm):
            kw = dict(comm=comm, plotThread=plot, drawRank=draw)
            import warnings
            with warnings.catch_warnings():
                warnings.simplefilter('ignore')
                if which == 'fresh':
                    out = setups.setupCylindricalGrid('v_parallel', **kw)
                else:
                    out = setups.setupFromFile('nowhere', layout='v_parallel', **kw)
                # the set-up is only usable if the layout changes of a time step work on it: every process calls them (the
                # plot-only process holds an empty manager), a member that skips a collective leaves its partners waiting
                g = out[0] if isinstance(out, tuple) else out
                for lay_ in ('flux_surface', 'v_parallel', 'poloidal', 'v_parallel'):
                    g.setLayout(lay_)
            return True
        try:
            simmpi.World(P).run(rankfn)
        except Exception as e:
            return '%s: %s' % (type(e).__name__, str(e)[:200])
        finally:
            setups.getLayoutHandler = handler
            setups.Grid = FakeGrid
        return None

    for ctx, (kind, val) in explore(body, timeout_ms=20000, index_cap=64):
        if kind == 'abort':
            if val.inconclusive:
                res['inconclusive'].append('wiring abort %s %r' % (val.why, item))
            continue
        res['obligations'] += 1
        mdl = ctx.model() if ctx.check() == 'sat' else None
        rkv = symx.model_value(mdl, SInt(z3.Int('rank'))) if mdl is not None else None
        if kind == 'exc' and not replay():
            res['inconclusive'].append('wiring: exception on the model only: %s %s %r' % (type(val).__name__, str(val)[:150], item))
            continue
        if kind == 'exc':
            res['violations'].append(('wiring:exception', '%s(%s) on %d processes (plotThread=%s, drawRank=%d), rank %s: %s: %s' % (
                'setupCylindricalGrid' if which == 'fresh' else 'setupFromFile', 'v_parallel', P, plot, draw, rkv, type(val).__name__, str(val)[:150]),
                dict(kind='wiring', item=list(item), rank=str(rkv))))
            continue
        bad = None
        if len(val) != 1:
            bad = 'getLayoutHandler called %d times' % len(val)
        else:
            comm, nprocs, lens = val[0]
            if int(nprocs[0]) * int(nprocs[1]) != comm.Get_size():
                bad = 'process grid %s handed over with a communicator of %d process(es) (%s)' % (nprocs, comm.Get_size(), comm.tag)
            elif comm.tag.endswith('/plot') and any(lens):
                bad = 'the plot rank builds layouts on a non-empty grid'
        if bad:
            prob = replay()
            if prob:
                res['violations'].append(('wiring:grid', '%s on %d processes (plotThread=%s, drawRank=%d), rank %s: %s; with the real layout manager on all ranks: %s' % (
                    'setupCylindricalGrid' if which == 'fresh' else 'setupFromFile', P, plot, draw, rkv, bad, prob), dict(kind='wiring', item=list(item), rank=str(rkv), concrete=prob)))
            else:
                res['inconclusive'].append('wiring: %s, but the real layout manager accepts it on all ranks (%r)' % (bad, item))
        else:
            res['discharged'] += 1
            res['nontrivial'].append('wiring|%r|%s' % (item, ''.join('T' if d['choice'] else 'F' for d in ctx.decisions)))
    res['stats'] = symx.GLOBAL.as_dict()
    symx.GLOBAL.__init__()
    return res


def main():
    run = H.Run(PID, 'proof')
    pg = H.repo_import('pygyro.model.process_grid')
    run.functions = H.src_info(pg.compute_2d_process_grid, pg.compute_2d_process_grid_from_max)
    if run.tier == 'quick':
        P, M, P4, M4 = 32, 64, 12, 16
    else:
        P, M, P4, M4 = 128, 256, 32, 40
    tmo = 20000
    if run.args.replay:
        import json
        rp = json.load(open(run.args.replay))['replay']
        a = rp['args']
        if rp['mode'] == 'max':
            print(replay_concrete(pg, a[0], a[1], rp['mpi_size']))
        else:
            print(replay_concrete(pg, min(a[0], a[3]), min(a[2], a[3]), rp['mpi_size'], npts=a))
        sys.exit(0)
    items = [('max', s, M, tmo, None) for s in range(1, P + 1)] + [('npts', s, M4, tmo, None) for s in range(1, P4 + 1)]
    items.sort(key=lambda it: -it[1])
    for r in H.pmap(work, items, run.args.jobs):
        run.merge(r)
    witems = []
    for which in ('fresh', 'restart'):
        for Pw in ((2, 3, 5) if run.tier == 'quick' else (1, 2, 3, 4, 5, 6, 7, 8)):
            witems.append((which, Pw, False, 0))
            if Pw >= 2:
                witems.append((which, Pw, True, 0))
                witems.append((which, Pw, True, Pw - 1))
    for r in H.pmap(wiring_item, witems, run.args.jobs):
        run.merge(r)
    run.sections['setup_wiring_items'] = len(witems)
    # canaries: in-memory mutants of the function must be reported
    sizes = [4, 6, 12] if run.tier == 'quick' else [4, 6, 8, 9, 12, 16, 30]
    can_items = [('max', s, 24, tmo, edits) for name, edits in CANARIES for s in sizes]
    caught = set()
    for r in H.pmap(work, can_items, run.args.jobs):
        run.add_stats(r.get('stats', {}))
        if r.get('canary') == '__not_applicable__':
            caught.add('__not_applicable__')
        elif r['violations']:
            caught.add(repr(r['canary']))
    for name, edits in CANARIES:
        hit = repr(edits) in caught
        run.canaries.append(dict(name=name, detected=hit))
        if not hit:
            run.canary_miss(name, caught)
    run.bounds = dict(mpi_size='1..%d' % P, max_proc='1..%d (both symbolic Int)' % M,
                      four_argument_entry='mpi_size 1..%d, npts 1..%d each (symbolic)' % (P4, M4),
                      termination='<= %d*(mpi_size+M+4)+64 symbolic decisions per path' % DECISION_BOUND_FACTOR)
    run.outside = ['maxima above %d, process counts above %d' % (M, P),
                   'IEEE rounding of the ratio comparison (ratios compared in exact rationals; each path is '
                   'additionally replayed once on the real float code and must return the same grid)']
    run.assumptions = ['ratio comparisons evaluated over exact rationals', 'arguments are positive ints']
    run.stubs = ['set-up wiring part: getLayoutHandler / Grid / initialisers / glob / constants file of a fresh copy of setups.py replaced by recording stand-ins; communicator with concrete size and symbolic rank']
    run.finish(
        explanation='CPython executes the real compute_2d_process_grid(_from_max) on z3 Int proxies; per mpi_size every '
                    'feasible path is enumerated by solver-guided forking; on each path z3 decides (a) returned grid '
                    'multiplies to mpi_size and lies within the maxima for all maxima in the bound, (b) RuntimeError only '
                    'if no divisor pair fits, (c) no other exception, (d) bounded number of decisions (termination).',
        rule='one case = one feasible path of the real function for one mpi_size (a class of (max1,max2) values '
             'certified non-empty by z3); distinct = distinct (mode, mpi_size, returned grid / error path)')


if __name__ == '__main__':
    main()
