"""C02 -- block decomposition is an exact balanced partition; accessors agree with it.

(a) Layout.__init__ runs on an *unbounded* symbolic extent n (mathematical Int, only n >= p assumed),
    p and the rank concrete: z3 proves the partition facts for every n.
(b) bufferSize >= size of every layout's block, for symbolic extents up to N (bit-vectors);
    sufficiency for every transpose is the absence of numpy errors in the C01/C03 runs.
(c) Grid accessors (real Grid.__init__ on the symbolic numpy model) agree with the layout's tables.
"""
import itertools
import json
import sys
import time
import warnings

import numpy as np
import z3

from lib import symx, symnp, simmpi
from lib import harness as H
from lib import layoutsym as LS
from lib.symx import zt
from lib.symnp import zi

PID = 'C02'


# ----------------------------------------------------------------------------- (a) partition
def concrete_layout_problems(real, nprocs, dims_order, shape, rank):
    """real Layout on real numpy with concrete extents: list of violated facts"""
    eta = [np.arange(n, dtype=float) for n in shape]
    L = real.Layout('x', list(nprocs), list(dims_order), eta, list(rank))
    probs = []
    nd = len(dims_order)
    for i in range(nd):
        p = nprocs[i] if i < len(nprocs) else 1
        k = rank[i] if i < len(nprocs) else 0
        n = shape[dims_order[i]]
        T, Ln = list(L.mpi_starts(i)), list(L.mpi_lengths(i))
        if len(T) != p or len(Ln) != p:
            probs.append('tables of wrong length')
            continue
        if T[0] != 0:
            probs.append('first block does not start at 0')
        for r in range(p):
            nxt = T[r + 1] if r < p - 1 else n
            if T[r] + Ln[r] != nxt:
                probs.append('gap/overlap after block %d of dim %d' % (r, i))
            if Ln[r] < 1:
                probs.append('empty block')
        if max(Ln) - min(Ln) > 1:
            probs.append('block lengths differ by more than one')
        if L.starts[i] != T[k] or L.ends[i] != T[k] + Ln[k] or L.shape[i] != Ln[k]:
            probs.append('starts/ends/shape disagree with tables in dim %d' % i)
        if L.max_block_shape[i] != max(Ln):
            probs.append('max_block_shape[%d]=%s but longest block is %s' % (i, L.max_block_shape[i], max(Ln)))
        if L.fullShape[i] != n:
            probs.append('fullShape')
    if L.size != int(np.prod(L.shape)):
        probs.append('size')
    if L.max_block_size != int(np.prod(L.max_block_shape)):
        probs.append('max_block_size')
    return probs


def partition_item(item):
    nprocs, dims_order, canary = item
    res = H.worker_result()
    real, lay = LS.modules()
    real_mod = real
    if canary:
        real_mod = H.mutant_module(real, canary)
        lay = H.mutant_module(lay, canary)
        lay.np = symnp.NPShim()
        lay.len = symnp.symlen
    symx.set_bv(None)
    nd = len(dims_order)
    t0 = time.time()
    ranks = list(itertools.product(*[range(p) for p in nprocs]))
    mins = LS.min_extents(nd, [({'x': dims_order}, nprocs)])

    def body(ctx):
        ns = [z3.Int('n%d' % i) for i in range(nd)]
        for v, m in zip(ns, mins):
            ctx.assume(v >= m)                 # no upper bound
        eta = [symnp.SymLen(symx.SInt(v)) for v in ns]
        Ls = [lay.Layout('x', list(nprocs), list(dims_order), eta, list(rk)) for rk in ranks]
        return ns, Ls

    def paths():
        # the integer-only constructor has one path for all n; a path budget keeps a changed constructor (e.g. one that goes
        # through floating-point floors) from splitting on the unbounded extent for ever
        try:
            for x in symx.explore(body, timeout_ms=120000, maxpaths=48):
                yield x
        except RuntimeError as e:
            if 'path budget' not in str(e):
                raise
            res['budget'] = str(e)

    for ctx, (kind, val) in paths():
        if kind != 'ok':
            res['obligations'] += 1
            r = ctx.check()
            if kind == 'exc' and r == 'sat':
                m = ctx.model()
                res['inconclusive'].append('exception in Layout.__init__ %r' % (val,))
            elif kind == 'abort' and val.inconclusive:
                res['inconclusive'].append('abort %s' % val.why)
            continue
        ns, Ls = val
        L0 = Ls[0]
        for rk, L in zip(ranks, Ls):
            bad = []
            for i in range(nd):
                p = nprocs[i] if i < len(nprocs) else 1
                k = rk[i] if i < len(nprocs) else 0
                n = ns[dims_order[i]]
                T = [zt(x) for x in L.mpi_starts(i)]
                Ln = [zt(x) for x in L.mpi_lengths(i)]
                if len(T) != p or len(Ln) != p:
                    bad.append(z3.BoolVal(True))
                    continue
                bad.append(T[0] != 0)
                for r in range(p):
                    nxt = T[r + 1] if r < p - 1 else n
                    bad.append(T[r] + Ln[r] != nxt)
                    bad.append(Ln[r] < 1)
                    for s in range(r + 1, p):
                        bad.append(z3.Or(Ln[r] - Ln[s] > 1, Ln[s] - Ln[r] > 1))
                    bad.append(zt(L0.mpi_starts(i)[r]) != T[r])          # same tables on every rank
                    bad.append(zt(L0.mpi_lengths(i)[r]) != Ln[r])
                bad.append(zt(L.starts[i]) != T[k])
                bad.append(zt(L.ends[i]) != T[k] + Ln[k])
                bad.append(zt(L.shape[i]) != Ln[k])
                mx = zt(L.max_block_shape[i])
                bad.append(z3.Or([mx < x for x in Ln]))
                bad.append(z3.And([mx != x for x in Ln]))
                bad.append(zt(L.fullShape[i]) != n)
                if L.inv_dims_order[dims_order[i]] != i:
                    bad.append(z3.BoolVal(True))
            res['obligations'] += 1
            r = ctx.check(z3.Or(bad))
            if r == 'unsat':
                res['discharged'] += 1
                res['nontrivial'].append('part|%s|%s|%s' % (nprocs, dims_order, rk))
            elif r == 'sat':
                m = ctx.model()
                shape = [m.eval(v, model_completion=True).as_long() for v in ns]
                probs = concrete_layout_problems(real_mod, nprocs, dims_order, shape, rk)
                rep = dict(kind='partition', nprocs=nprocs, dims_order=dims_order, shape=shape, rank=rk, concrete=probs, canary=bool(canary))
                if probs:
                    res['violations'].append(('partition', 'extents %s, nprocs %s, rank %s: %s' % (shape, nprocs, rk, probs[0]), rep))
                else:
                    res['inconclusive'].append('partition model does not reproduce: %r' % rep)
            else:
                res['inconclusive'].append('unknown: partition %s %s' % (nprocs, rk))
            # size == product of shape (syntactic product of the same terms; decided separately)
            res['obligations'] += 1
            prod = 1
            for x in L.shape:
                prod = prod * x
            mprod = 1
            for x in L.max_block_shape:
                mprod = mprod * x
            t = z3.simplify(z3.Or(zt(L.size) != zt(prod), zt(L.max_block_size) != zt(mprod)))
            if z3.is_false(t):
                res['discharged'] += 1
            else:
                r = ctx.check(t)
                if r == 'unsat':
                    res['discharged'] += 1
                else:
                    res['inconclusive'].append('size==prod(shape) not decided (%s) for %s' % (r, nprocs))
        if ctx.check() != 'sat':
            res['inconclusive'].append('vacuous partition path')
        elif len(res['samples']) < 1:
            m = ctx.model()
            res['samples'].append(dict(part='partition', nprocs=nprocs, dims_order=dims_order,
                                       example_extents=[m.eval(v, model_completion=True).as_long() for v in ns],
                                       note='extents unbounded in the proof; this is one model of the path'))
    if (res.get('budget') or res['inconclusive']) and not res['violations']:
        # no proof for all extents: the real constructor on concrete extents (every rank, n up to 128) may still decide
        found = None
        for n in range(max(mins), 129):
            shape = [max(n, mn) for mn in mins]
            for rk in ranks:
                try:
                    probs = concrete_layout_problems(real_mod, nprocs, dims_order, shape, rk)
                except Exception as e:
                    probs = ['exception %s: %s' % (type(e).__name__, e)]
                if probs:
                    found = (shape, rk, probs)
                    break
            if found:
                break
        res['obligations'] += 1
        if found:
            shape, rk, probs = found
            res['violations'].append(('partition', 'extents %s, nprocs %s, rank %s: %s (witness from a concrete sweep; symbolic run: %s)' % (
                shape, nprocs, rk, probs[0], res.get('budget') or res['inconclusive'][0]),
                dict(kind='partition', nprocs=nprocs, dims_order=dims_order, shape=shape, rank=rk, concrete=probs, canary=bool(canary))))
        elif res.get('budget'):
            res['inconclusive'].append('partition %s: %s' % (nprocs, res['budget']))
    res['stats'] = symx.GLOBAL.as_dict()
    symx.GLOBAL.__init__()
    res['canary'] = item[2] is not None
    res['wall'] = time.time() - t0
    return res


# ----------------------------------------------------------------------------- (b) buffer size
def buffer_item(item):
    nd, nprocs, layouts, N = item
    res = H.worker_result()
    real, lay = LS.modules()
    symx.set_bv(LS.bv_width(max(nprocs), N, nd))
    mins = LS.min_extents(nd, [(layouts, nprocs)])
    size = 1
    for p in nprocs:
        size *= p
    st = {}

    def body(ctx):
        ns = LS.extent_vars(ctx, nd, N, mins)
        st['ns'] = ns
        eta = [symnp.SymLen(symx.SInt(v)) for v in ns]

        def rankfn(comm):
            return lay.getLayoutHandler(comm, dict(layouts), list(nprocs), eta)
        return simmpi.World(size).run(rankfn)

    for ctx, (kind, val) in symx.explore(body, timeout_ms=60000):
        if kind != 'ok':
            if kind == 'abort' and not val.inconclusive:
                continue
            res['inconclusive'].append('buffer part: %s %r' % (kind, val))
            continue
        for rk, h in enumerate(val):
            bad = []
            for name in layouts:
                L = h.getLayout(name)
                bad.append(zi(h.bufferSize) < zi(L.size))
            bad.append(zi(h.bufferSize) != zi(val[0].bufferSize))     # same buffer size on every rank? not required; only sufficiency
            res['obligations'] += 1
            r = ctx.check(z3.Or(bad[:-1]))
            if r == 'unsat':
                res['discharged'] += 1
                res['nontrivial'].append('buf|%s|%s|%d|%d' % (nprocs, sorted(layouts), rk, len(ctx.decisions)))
            elif r == 'sat':
                m = ctx.model()
                shape = [m.eval(v, model_completion=True).as_signed_long() for v in st['ns']]
                probs = concrete_buffer_problems(real, shape, nprocs, layouts)
                rep = dict(kind='buffer', shape=shape, nprocs=nprocs, layouts=layouts, concrete=probs)
                if probs:
                    res['violations'].append(('buffer', probs[0], rep))
                else:
                    res['inconclusive'].append('buffer model does not reproduce %r' % rep)
            else:
                res['inconclusive'].append('unknown buffer query')
    res['stats'] = symx.GLOBAL.as_dict()
    symx.GLOBAL.__init__()
    return res


def concrete_buffer_problems(real, shape, nprocs, layouts):
    eta = [np.arange(n, dtype=float) for n in shape]
    size = int(np.prod(nprocs))
    probs = []

    def rankfn(comm):
        h = real.getLayoutHandler(comm, dict(layouts), list(nprocs), eta)
        return [(name, h.bufferSize, h.getLayout(name).size) for name in layouts]
    for r, lst in enumerate(simmpi.World(size).run(rankfn)):
        for name, b, s in lst:
            if b < s:
                probs.append('rank %d: bufferSize %d < size %d of layout %s (shape %s grid %s)' % (r, b, s, name, shape, nprocs))
    return probs


# ----------------------------------------------------------------------------- (c) accessors
def accessor_item(item):
    nd, nprocs, dims_order, N, canary = item
    res = H.worker_result()
    real, lay = LS.modules()
    symx.set_bv(None)
    H.install_fake_mpi()
    gridmod = H.load_copy('pygyro.model.grid', 'pygyro_model_grid__sym')
    import numpy
    shim = symnp.NPShim()
    H.rebind(gridmod, [(numpy, shim)])
    gridmod.len = symnp.symlen
    if canary:
        gridmod = H.mutant_module(gridmod, canary)
        gridmod.np = shim
        gridmod.len = symnp.symlen
    mins = LS.min_extents(nd, [({'x': dims_order}, nprocs)])
    ranks = list(itertools.product(*[range(p) for p in nprocs]))
    X = z3.Function('X', z3.IntSort(), z3.IntSort(), z3.RealSort())
    size = 1
    for p in nprocs:
        size *= p
    st = {}

    def body(ctx):
        ns = [z3.Int('n%d' % i) for i in range(nd)]
        for v, m in zip(ns, mins):
            ctx.assume(z3.And(v >= m, v <= N))
        st['ns'] = ns
        eta = [symnp.SymSeq(symx.SInt(ns[d]), (lambda d: (lambda i: symx.SReal(X(z3.IntVal(d), zt(i)))))(d)) for d in range(nd)]
        junk = z3.Function('junk', z3.IntSort(), z3.IntSort(), symnp.VAL)
        shim.new_buffer = lambda n: symnp.new_array('b', n, lambda pos: junk(z3.IntVal(0), pos))
        out = []

        def rankfn(comm):
            h = lay.getLayoutHandler(comm, {'x': list(dims_order)}, list(nprocs), eta)
            g = gridmod.Grid(eta, [None] * nd, h, 'x', comm=comm)
            L = h.getLayout('x')
            obs = []
            for i in range(nd):
                start = L.mpi_starts(i)[L.ranks[i]]
                length = L.mpi_lengths(i)[L.ranks[i]]
                d = dims_order[i]
                # getCoords(i): enumerate of (j, X_d(start+j)), exactly `length` items
                items = list(g.getCoords(i))
                obs.append(('getCoords', i, len(items), length,
                            [(j, v, symx.SReal(X(z3.IntVal(d), zt(start + jj)))) for jj, (j, v) in enumerate(items)]))
                vals = list(g.getCoordVals(i))
                obs.append(('getCoordVals', i, len(vals), length,
                            [(jj, v, symx.SReal(X(z3.IntVal(d), zt(start + jj)))) for jj, v in enumerate(vals)]))
                gi = list(g.getGlobalIdxVals(i))
                obs.append(('getGlobalIdxVals', i, len(gi), length, [(jj, v, start + jj) for jj, v in enumerate(gi)]))
            for d in range(nd):
                i = list(dims_order).index(d)
                start = L.mpi_starts(i)[L.ranks[i]]
                length = L.mpi_lengths(i)[L.ranks[i]]
                items = list(g.getEta(d))
                obs.append(('getEta', d, len(items), length,
                            [(j, v, symx.SReal(X(z3.IntVal(d), zt(start + jj)))) for jj, (j, v) in enumerate(items)]))
            loc = [symx.SInt(z3.Int('loc%d' % i)) for i in range(nd)]
            glob = g.getGlobalIndices(*loc)
            exp = [None] * nd
            for i in range(nd):
                exp[dims_order[i]] = loc[i] + L.mpi_starts(i)[L.ranks[i]]
            obs.append(('getGlobalIndices', -1, len(glob), nd, [(i, glob[i], exp[i]) for i in range(nd)]))
            # slice accessors: the whole local line / plane of the last one / two positions of the ordering
            # (the view model has no rank reduction: the leading positions are addressed with length-1 slices instead of ints)
            one = slice(0, 1)
            if nd >= 2:
                v1 = g.get1DSlice(*([one] * (nd - 1)))
                obs.append(('get1DSlice', -1, zt(v1.shape[nd - 1]), L.shape[nd - 1], []))
            if nd >= 3:
                v2 = g.get2DSlice(*([one] * (nd - 2)))
                obs.append(('get2DSlice', -2, zt(v2.shape[nd - 2]), L.shape[nd - 2], []))
                obs.append(('get2DSlice', -1, zt(v2.shape[nd - 1]), L.shape[nd - 1], []))
            return obs
        return simmpi.World(size).run(rankfn)

    def confirm(what):
        m = ctx.model()
        shape = [m.eval(v, model_completion=True).as_long() for v in st['ns']]
        probs = concrete_accessor_problems(canary, shape, nprocs, dims_order)
        rep = dict(kind='accessor', shape=shape, nprocs=nprocs, dims_order=dims_order, symbolic=what, concrete=probs, canary=bool(canary))
        if probs:
            key = 'accessor:' + probs[0].split(':')[0]
            res['violations'].append((key, probs[0], rep))
        else:
            res['inconclusive'].append('accessor model does not reproduce: %r' % rep)

    for ctx, (kind, val) in symx.explore(body, timeout_ms=30000, index_cap=32):
        if kind == 'abort':
            if val.inconclusive:
                res['inconclusive'].append('accessor abort %s' % val.why)
            continue
        res['obligations'] += 1
        if kind == 'exc':
            if ctx.check() == 'sat':
                confirm('exception %s: %s' % (type(val).__name__, val))
            else:
                res['inconclusive'].append('accessor exception without model %r' % (val,))
            continue
        bad = []
        for rk, obs in enumerate(val):
            for (name, i, got_len, exp_len, triples) in obs:
                bad.append(zt(exp_len) != got_len)
                for (j, v, e) in triples:
                    if name in ('getCoords', 'getEta'):
                        if j != triples.index((j, v, e)):
                            bad.append(z3.BoolVal(True))
                    a, b = symx._pair(v, e)
                    bad.append(a != b)
        r = ctx.check(z3.Or(bad))
        if r == 'unsat':
            res['discharged'] += 1
            res['nontrivial'].append('acc|%s|%s|%d' % (nprocs, dims_order, len(ctx.decisions)))
            if len(res['samples']) < 1 and ctx.check() == 'sat':
                m = ctx.model()
                res['samples'].append(dict(part='accessors', nprocs=nprocs, dims_order=dims_order,
                                           example_extents=[m.eval(v, model_completion=True).as_long() for v in st['ns']]))
        elif r == 'sat':
            confirm('accessor value differs from layout tables')
        else:
            res['inconclusive'].append('unknown accessor query')
    res['stats'] = symx.GLOBAL.as_dict()
    symx.GLOBAL.__init__()
    res['canary'] = canary is not None
    return res


def concrete_accessor_problems(canary, shape, nprocs, dims_order):
    """real Grid + real Layout on real numpy: accessor outputs vs. independent slices"""
    real, _ = LS.modules()
    gm = H.repo_import('pygyro.model.grid')
    if canary:
        gm = H.mutant_module(gm, canary)
    nd = len(shape)
    eta = [np.arange(n, dtype=float) * (d + 2) + 0.5 for d, n in enumerate(shape)]
    size = int(np.prod(nprocs))

    def rankfn(comm):
        probs = []
        h = real.getLayoutHandler(comm, {'x': list(dims_order)}, list(nprocs), eta)
        g = gm.Grid(eta, [None] * nd, h, 'x', comm=comm)
        L = h.getLayout('x')
        for i in range(nd):
            s, ln = L.mpi_starts(i)[L.ranks[i]], L.mpi_lengths(i)[L.ranks[i]]
            d = dims_order[i]
            for name, f, exp in (
                    ('getCoords', lambda: list(g.getCoords(i)), [(j, eta[d][s + j]) for j in range(ln)]),
                    ('getCoordVals', lambda: list(g.getCoordVals(i)), [eta[d][s + j] for j in range(ln)]),
                    ('getGlobalIdxVals', lambda: list(g.getGlobalIdxVals(i)), [s + j for j in range(ln)])):
                try:
                    got = f()
                    if got != exp:
                        probs.append('%s: wrong values for axis %d (shape %s grid %s order %s)' % (name, i, shape, nprocs, dims_order))
                except Exception as e:
                    probs.append('%s: %s: %s' % (name, type(e).__name__, e))
        for d in range(nd):
            i = list(dims_order).index(d)
            s, ln = L.mpi_starts(i)[L.ranks[i]], L.mpi_lengths(i)[L.ranks[i]]
            try:
                got = list(g.getEta(d))
                if got != [(j, eta[d][s + j]) for j in range(ln)]:
                    probs.append('getEta: wrong values for dimension %d (shape %s grid %s order %s)' % (d, shape, nprocs, dims_order))
            except Exception as e:
                probs.append('getEta: %s: %s' % (type(e).__name__, e))
        try:
            if nd >= 2 and g.get1DSlice(*([0] * (nd - 1))).shape != (L.shape[nd - 1],):
                probs.append('get1DSlice: local line has %d points, the slice %s (shape %s grid %s order %s)' % (L.shape[nd - 1], g.get1DSlice(*([0] * (nd - 1))).shape, shape, nprocs, dims_order))
            if nd >= 3 and g.get2DSlice(*([0] * (nd - 2))).shape != (L.shape[nd - 2], L.shape[nd - 1]):
                probs.append('get2DSlice: local plane is %s, the slice %s (shape %s grid %s order %s)' % ((L.shape[nd - 2], L.shape[nd - 1]), g.get2DSlice(*([0] * (nd - 2))).shape, shape, nprocs, dims_order))
        except Exception as e:
            probs.append('get1DSlice/get2DSlice: %s: %s' % (type(e).__name__, e))
        try:
            loc = [1] * nd
            got = g.getGlobalIndices(*loc)
            exp = [None] * nd
            for i in range(nd):
                exp[dims_order[i]] = 1 + L.mpi_starts(i)[L.ranks[i]]
            if list(got) != exp:
                probs.append('getGlobalIndices: wrong result')
        except Exception as e:
            probs.append('getGlobalIndices: %s: %s' % (type(e).__name__, e))
        return probs
    out = []
    for p in simmpi.World(size).run(rankfn):
        out += p
    return out


PART_CANARIES = [
    ('big blocks spread with wrong divisor', [("starts = small_size*ranks+nBig*ranks//nRanks", "starts = small_size*ranks+nBig*ranks//(nRanks+1)")]),
    ('max block ignores remainder of one', [("self._max_shape[i] = big_size if nBig > 0 else small_size", "self._max_shape[i] = big_size if nBig > 1 else small_size")]),
]
ACC_CANARIES = [
    ('getGlobalIndices ignores dims_order', [("result[self._layout.dims_order[i]] = indices[i]+toAdd", "result[i] = indices[i]+toAdd")]),
    ('getCoordVals off by one', [("return self._Vals[self._layout.dims_order[i]][self._layout.starts[i]:self._layout.ends[i]]",
                                  "return self._Vals[self._layout.dims_order[i]][self._layout.starts[i]:self._layout.ends[i]-1]")]),
]


def main():
    run = H.Run(PID, 'proof')
    real, lay = LS.modules()
    gm = H.repo_import('pygyro.model.grid')
    if run.args.replay:
        rp = json.load(open(run.args.replay))['replay']
        if rp['kind'] == 'partition':
            print(concrete_layout_problems(real, rp['nprocs'], rp['dims_order'], rp['shape'], rp['rank']))
        elif rp['kind'] == 'buffer':
            print(concrete_buffer_problems(real, rp['shape'], rp['nprocs'], rp['layouts']))
        else:
            print(concrete_accessor_problems(None, rp['shape'], rp['nprocs'], rp['dims_order']))
        sys.exit(0)
    G = gm.Grid
    run.functions = H.src_info(real.Layout.__init__, real.LayoutHandler.__init__, G.__init__, G.getCoords, G.getEta,
                               G.getCoordVals, G.getGlobalIdxVals, G.getGlobalIndices)
    quick = run.tier == 'quick'
    P = 8 if quick else 24
    items = []
    for p in range(1, P + 1):
        items.append(((p,), (0,), None))
    for p0, p1 in ([(1, 2), (2, 1), (2, 3), (3, 3)] if quick else itertools.product(range(1, 6), repeat=2)):
        for do in itertools.permutations(range(3)) if not quick else [(0, 1, 2), (2, 0, 1), (1, 2, 0)]:
            items.append(((p0, p1), do, None))
    if not quick:
        for do in itertools.permutations(range(4)):
            items.append(((2, 3), do, None))
    for name, edits in PART_CANARIES:
        for p in (2, 3, 4):
            items.append(((p,), (0,), edits))
    caught = {}
    for r in H.pmap(partition_item, items, run.args.jobs):
        if r.get('canary'):
            run.add_stats(r.get('stats', {}))
            for v in r['violations']:
                caught['part'] = caught.get('part', 0) + 1
            continue
        run.merge(r)
    # canary accounting per name (re-run sequentially, cheap)
    for name, edits in PART_CANARIES:
        hit = False
        for p in (2, 3, 4):
            try:
                rr = partition_item(((p,), (0,), edits))
            except H.CanaryNotApplicable:
                caught['__not_applicable__'] = True
                break
            if rr['violations']:
                hit = True
                caught[name] = True
                break
        run.canaries.append(dict(name=name, detected=hit))
        if not hit:
            run.canary_miss(name, caught)
    run.sections['partition'] = dict(process_counts='1..%d (1-D), 2-D grids listed in source' % P, extents='unbounded Int, n >= p')

    # (b) buffer sufficiency
    N = 4 if quick else 5
    bitems = []
    phys4 = {'flux_surface': [0, 3, 1, 2], 'v_parallel': [0, 2, 1, 3], 'poloidal': [3, 2, 1, 0]}
    phys3 = {'v_parallel_2d': [0, 2, 1], 'mode_solve': [1, 2, 0]}
    for grid in ([(1, 2), (2, 2)] if quick else [(1, 2), (2, 1), (2, 2), (1, 3), (3, 1), (2, 3), (3, 2)]):
        bitems.append((3, list(grid), phys3, N))
        bitems.append((3, list(grid), {'A': [0, 1, 2], 'B': [2, 1, 0], 'C': [2, 0, 1]}, N))
        if not quick or grid == (2, 2):
            bitems.append((4, list(grid), phys4, 3 if quick else 4))
    for p in ([2, 3] if quick else [2, 3, 4]):
        bitems.append((2, [p], {'L01': [0, 1], 'L10': [1, 0]}, 6))
    # directly connected pairs that differ by a cyclic relabelling (one distributed direction)
    for p in ([2] if quick else [2, 3]):
        bitems.append((3, [p], {'A': [0, 1, 2], 'B': [1, 2, 0]}, 5))
        bitems.append((3, [p], {'A': [0, 1, 2], 'B': [2, 0, 1], 'C': [0, 2, 1]}, 5))
    for r in H.pmap(buffer_item, bitems, run.args.jobs):
        run.merge(r)
    run.sections['buffer'] = dict(configs=len(bitems), N=N)

    # (c) accessors
    aitems = []
    NA = 5 if quick else 8
    for grid in ([(2,), (1, 2), (2, 2)] if quick else [(1,), (2,), (3,), (1, 2), (2, 1), (2, 2), (2, 3)]):
        for do in ([(0, 1, 2), (2, 0, 1), (1, 2, 0)] if quick else itertools.permutations(range(3))):
            aitems.append((3, list(grid), list(do), NA if len(grid) == 1 or not quick else 4, None))
    if not quick:
        aitems.append((4, [2, 2], [0, 3, 1, 2], 4, None))
        aitems.append((4, [2, 2], [3, 2, 1, 0], 4, None))
    for name, edits in ACC_CANARIES:
        aitems.append((3, [2], [2, 0, 1], 4, edits))
    cnames = [n for n, _ in ACC_CANARIES]
    chits = {}
    for r in H.pmap(accessor_item, aitems, run.args.jobs):
        if r.get('canary'):
            run.add_stats(r.get('stats', {}))
            continue
        run.merge(r)
    for name, edits in ACC_CANARIES:
        try:
            rr = accessor_item((3, [2], [2, 0, 1], 4, edits))
        except H.CanaryNotApplicable:
            caught['__not_applicable__'] = True
            rr = dict(violations=[], inconclusive=[])
        hit = bool(rr['violations'])
        if hit:
            caught[name] = True
        run.canaries.append(dict(name=name, detected=hit))
        if not hit:
            run.canary_miss(name, caught)
    run.sections['accessors'] = dict(configs=len(aitems), N=NA)
    run.stubs = LS.stubs() + ['pygyro.model.grid np -> lib/symnp.NPShim, len -> symlen', 'coordinate arrays: SymSeq of symbolic length with uninterpreted values']
    run.bounds = dict(partition='all n >= p (unbounded), p <= %d per direction' % P, buffer='extents <= %d' % N,
                      accessors='extents <= %d' % NA)
    run.outside = ['process counts above the listed ones', 'buffer sufficiency and accessors above the extent bound',
                   'sufficiency of the buffer for every transpose is discharged by the C01/C03 runs (no numpy error on any feasible path)']
    run.assumptions = ['len(eta_grid[d]) is the extent (SymLen/SymSeq stand-ins)']
    run.finish(
        explanation='(a) Layout.__init__ on an unbounded symbolic Int extent: tiling in rank order, lengths within one, tables '
                    'equal on all ranks, starts/ends/shape/max_block_shape consistent -- proved per (p, rank) for every n>=p. '
                    '(b) bufferSize >= layout.size over bit-vector extents. (c) real Grid accessors on symbolic-length '
                    'coordinate sequences agree with the tables. Counter-models replayed on real numpy.',
        rule='case = (process grid, dims order, rank) for the partition; (grid, layout set, path) for buffers; '
             '(grid, dims order, path = class of extents) for accessors')


if __name__ == '__main__':
    main()
