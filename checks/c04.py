"""C04 -- grid layout changes and save/restore behave like a single global array.

One inductive step from an arbitrary valid state (representation invariant), for every operation:
the real Grid methods (setLayout, saveGridValues, restoreGridValues, freeGridSave, getAllData, currentLayout)
run on symbolic-shape buffers; the layout manager is the real LayoutHandler object whose `transpose` is replaced by
its contract as established by C01/C03 (requires: three pairwise distinct buffers, source holds the field in the
named source layout; ensures: dest holds the field in the destination layout, source havocked when no spare
buffer is given, spare buffer havocked otherwise).  z3 decides that the invariant and the reference model's next
state hold afterwards; since the invariant is re-established, histories of any length are covered.
"""
import itertools
import json
import sys
import time
import warnings

import numpy as np
import z3

from lib import symx, symnp, simmpi
from lib import harness as H
from lib import layoutsym as LS
from lib.symnp import zi, VAL

PID = 'C04'

LAYOUT_SETS = {
    '2d': (2, [2], {'A': [0, 1], 'B': [1, 0]}),
    'phys3': (3, [2, 1], {'v_parallel_2d': [0, 2, 1], 'mode_solve': [1, 2, 0], 'third': [0, 1, 2]}),
}
OPS = ['setLayout', 'save', 'restore', 'free', 'write']
PERMS3 = list(itertools.permutations(range(3)))


class ContractViolation(Exception):
    pass


_GRID = {}


def grid_modules():
    if not _GRID:
        real, lay = LS.modules()
        greal = H.repo_import('pygyro.model.grid')
        gsym = H.load_copy('pygyro.model.grid', 'pygyro_model_grid__sym')
        import numpy
        shim = symnp.NPShim()
        H.rebind(gsym, [(numpy, shim)])
        gsym.len = symnp.symlen
        _GRID.update(real=greal, sym=gsym, shim=shim)
    return _GRID['real'], _GRID['sym'], _GRID['shim']


def choose(ctx, name, n):
    """solver-forked choice among n alternatives"""
    v = z3.Int(name)
    ctx.assume(z3.And(v >= 0, v < n))
    return int(symx.SInt(v))


def equal_field(ctx, arr, layout, F, nd):
    """verdict of: exists in-range local index where arr (1-D owning buffer) differs from Enc(F, layout)"""
    li = [symx.mkint('i%d' % a) for a in range(nd)]
    cons = [z3.And(li[a] >= 0, li[a] < zi(layout.shape[a])) for a in range(nd)]
    got = symnp.read_buf(arr.buf, arr.buf.version(), LS.flat_pos(layout, li))
    return ctx.check(*cons, got != LS.expected_at(layout, F, li))


def work(item):
    """item: (layout set key, rank, N, op, canary)"""
    lkey, rank, N, op, canary = item
    res = H.worker_result()
    real, lay = LS.modules()
    greal, gsym, shim = grid_modules()
    gmod = gsym
    if canary:
        gmod = H.mutant_module(gsym, canary[1])
        gmod.np = shim
        gmod.len = symnp.symlen
    nd, nprocs, layouts = LAYOUT_SETS[lkey]
    names = list(layouts)
    symx.set_bv(LS.bv_width(max(nprocs), N, nd))
    mins = LS.min_extents(nd, [(layouts, nprocs)])
    nranks = int(np.prod(nprocs))
    t0 = time.time()
    st = {}

    class ContractHandler(lay.LayoutHandler):
        """real constructor / layouts / bufferSize; transpose = contract"""

        def transpose(self, source, dest, source_name, dest_name, buf=None):
            m = st['model']
            if source is dest or (buf is not None and (buf is source or buf is dest)):
                raise ContractViolation('aliasing buffers passed to transpose')
            for a in (source, dest) + ((buf,) if buf is not None else ()):
                if not isinstance(a, symnp.SymArr) or a.root is not None:
                    raise ContractViolation('transpose must be given the whole memory blocks')
            ctx = symx.Ctx.cur
            r = equal_field(ctx, source, self.getLayout(source_name), m['F'], nd)
            if r != 'unsat':
                raise ContractViolation('transpose precondition: source buffer does not hold the current field in layout %s (%s)' % (source_name, r))
            st['ntrans'] += 1
            k = st['ntrans']
            jf = lambda w: (lambda pos: st['junk'](symx.ival(50 + k), symx.ival(w), pos))
            dest.buf.reset(LS.field_init(self.getLayout(dest_name), m['F'], jf(0)))
            if buf is None:
                source.buf.reset(jf(1))
            else:
                buf.buf.reset(jf(2))

    def body(ctx):
        ns = LS.extent_vars(ctx, nd, N, mins)
        st['ns'] = ns
        eta = [symnp.SymLen(symx.SInt(v)) for v in ns]
        F = z3.Function('F', *([symx.isort()] * nd), VAL)
        S = z3.Function('S', *([symx.isort()] * nd), VAL)
        F2 = z3.Function('F2', *([symx.isort()] * nd), VAL)
        junk = z3.Function('junk', symx.isort(), symx.isort(), symx.isort(), VAL)
        st['junk'] = junk
        st['ntrans'] = 0
        nb = [0]

        def new_buffer(n):
            nb[0] += 1
            k = nb[0]
            return symnp.new_array('mem%d' % k, n, lambda pos: junk(symx.ival(k), symx.ival(9), pos))
        shim.new_buffer = new_buffer
        # ---- discrete part of the pre-state: forked by the solver
        has_save = bool(symx.SBool(z3.Bool('hasSaveMemory')))
        comm = simmpi.Comm(simmpi.World(nranks), ('world',), list(range(nranks)), rank)
        topo = comm.Create_cart(nprocs, periods=[False] * len(nprocs))
        subs = [topo.Sub([i == j for j in range(len(nprocs))]) for i in range(len(nprocs))]
        h = ContractHandler(subs, topo.Get_coords(rank), dict(layouts), list(nprocs), eta)
        g = gmod.Grid(eta, [None] * nd, h, names[0], comm=comm, allocateSaveMemory=has_save)
        if has_save:
            perm = PERMS3[choose(ctx, 'perm', 6)]
        else:
            perm = [(0, 1, 2), (1, 0, 2)][choose(ctx, 'perm', 2)]
        cur = names[choose(ctx, 'cur', len(names))]
        not_saved = True
        saved = None
        if has_save:
            not_saved = bool(symx.SBool(z3.Bool('notSaved')))
            if not not_saved:
                saved = names[choose(ctx, 'savedLayout', len(names))]
        g._dataIdx, g._buffIdx, g._saveIdx = perm
        g._current_layout_name = cur
        g._layout = h.getLayout(cur)
        if has_save:
            g.notSaved = not_saved
            if saved is not None:
                g._savedLayout = saved
            else:
                # nothing is held: the remembered name is either the constructor's initial state or the stale name of a save
                # that was restored or freed (every real history leaves one of the two)
                stale = choose(ctx, 'staleSaved', len(names) + 1)
                if stale < len(names):
                    g._savedLayout = names[stale]
        # ---- contents according to the representation invariant
        g._my_data[g._dataIdx].buf.reset(LS.field_init(h.getLayout(cur), F, lambda pos: junk(symx.ival(20), symx.ival(0), pos)))
        if saved is not None:
            g._my_data[g._saveIdx].buf.reset(LS.field_init(h.getLayout(saved), S, lambda pos: junk(symx.ival(21), symx.ival(0), pos)))
        g._f = gmod.np.split(g._my_data[g._dataIdx], [g._layout.size])[0].reshape(g._layout.shape)
        model = dict(F=F, S=S if saved is not None else None, cur=cur, saved=saved, has_save=has_save, not_saved=not_saved,
                     perm=perm)
        st['model'] = model
        st['model_ctx'] = ctx
        st['g'] = g
        st['h'] = h
        # ---- the operation
        arg = None
        exp_exc = None
        if op == 'setLayout':
            arg = names[choose(ctx, 'newLayout', len(names))]
            g.setLayout(arg)
            model['cur'] = arg
        elif op == 'write':
            # the user overwrites all values through the view returned by getAllData()
            view = g.getAllData()
            if view.buf is not g._my_data[g._dataIdx].buf:
                raise ContractViolation('getAllData() is not a view of the data buffer')
            view.buf.reset(LS.field_init(g._layout, F2, lambda pos: junk(symx.ival(22), symx.ival(0), pos)))
            model['F'] = F2
        else:
            try:
                if op == 'save':
                    exp_exc = not (has_save and not_saved)
                    g.saveGridValues()
                    model.update(S=model['F'], saved=model['cur'], not_saved=False)
                elif op == 'restore':
                    exp_exc = not (has_save and not not_saved)
                    g.restoreGridValues()
                    model.update(F=model['S'], cur=model['saved'], not_saved=True, S=None, saved=None)
                elif op == 'free':
                    exp_exc = not (has_save and not not_saved)
                    g.freeGridSave()
                    model.update(not_saved=True, S=None, saved=None)
            except AssertionError:
                if not exp_exc:
                    raise ContractViolation('%s refused although it is legal in this state' % op)
                return ('refused', arg)
            if exp_exc:
                raise ContractViolation('%s accepted although it must be refused (hasSaveMemory=%s notSaved=%s)' % (op, has_save, not_saved))
        return ('done', arg)

    def pre_state():
        m = st.get('model', {})
        return dict(has_save=m.get('has_save'), perm=list(m.get('perm') or []), op=op)

    def confirm(what, ctx, argname):
        """search a concrete history on the real Grid + real LayoutHandler (numpy) that reaches the same discrete
        pre-state, apply the operation and compare with a numpy reference model"""
        m = st['model']
        shape = [ctx.model().eval(v, model_completion=True).as_signed_long() for v in st['ns']] if ctx.check() == 'sat' else [N] * nd
        prob = concrete_history_search(lkey, shape, st['pre'], op, argname, canary)
        rep = dict(kind='grid', layouts=lkey, shape=shape, pre_state=st['pre'], op=op, arg=argname, symbolic=what, concrete=prob, canary=bool(canary))
        if prob and prob != 'unreachable':
            res['violations'].append(('grid:%s' % op, '%s; %s' % (what, prob), rep))
        elif prob == 'unreachable':
            res['inconclusive'].append('pre-state not reached by any concrete history of length <= 7 (invariant too weak?): %r' % rep)
        else:
            res['inconclusive'].append('symbolic violation does not reproduce on the real Grid: %r' % rep)

    for ctx, (kind, val) in symx.explore(body, timeout_ms=60000, index_cap=16):
        if kind == 'abort':
            if val.inconclusive:
                res['inconclusive'].append('abort %s %r' % (val.why, item[:4]))
            continue
        if 'model' not in st or st.get('model_ctx') is not ctx:
            import traceback
            res['inconclusive'].append('harness: state construction failed: %s %r %s' % (kind, val, ''.join(traceback.format_tb(val.__traceback__)[-3:]) if kind == 'exc' else ''))
            continue
        m = st['model']
        pre = dict(has_save=m['has_save'], perm=list(m['perm']))
        # recover pre-state discrete values from the decisions (cur/saved/not_saved before the op)
        mdl = ctx.model() if ctx.check() == 'sat' else None
        if mdl is None:
            res['inconclusive'].append('vacuous path %r' % (item[:4],))
            continue

        def mv(name, isbool=False):
            v = mdl.eval(z3.Bool(name) if isbool else z3.Int(name), model_completion=True)
            return z3.is_true(v) if isbool else v.as_long()
        pre['cur'] = names[mv('cur')] if 0 <= mv('cur') < len(names) else names[0]
        pre['not_saved'] = mv('notSaved', True) if m['has_save'] else True
        pre['saved'] = names[mv('savedLayout')] if (m['has_save'] and not pre['not_saved']) else None
        pre['stale'] = None
        if m['has_save'] and pre['not_saved']:
            sv = mv('staleSaved')
            pre['stale'] = names[sv] if 0 <= sv < len(names) else None
        st['pre'] = pre
        argname = val[1] if (kind == 'ok' and val) else (names[mv('newLayout')] if op == 'setLayout' else None)
        res['obligations'] += 1
        if kind == 'exc':
            if isinstance(val, NotImplementedError):
                res['inconclusive'].append('model limitation %r' % (val,))
                continue
            confirm('%s: %s' % (type(val).__name__, str(val)[:200]), ctx, argname)
            continue
        g, h = st['g'], st['h']
        status = val[0]
        ok = True
        problems = []
        # indices remain a permutation of the buffers
        idx = (g._dataIdx, g._buffIdx) + ((g._saveIdx,) if m['has_save'] else ())
        if sorted(idx) != list(range(len(idx))):
            problems.append('buffer indices are no longer a permutation: %r' % (idx,))
        if g.currentLayout != m['cur']:
            problems.append('currentLayout is %s, expected %s' % (g.currentLayout, m['cur']))
        if m['has_save'] and bool(g.notSaved) != bool(m['not_saved']):
            problems.append('notSaved flag is %s, expected %s' % (g.notSaved, m['not_saved']))
        if not problems:
            Lc = h.getLayout(m['cur'])
            data = g._my_data[g._dataIdx]
            r = equal_field(ctx, data, Lc, m['F'], nd)
            if r == 'sat':
                problems.append('visible data differs from the reference field in layout %s' % m['cur'])
            elif r != 'unsat':
                res['inconclusive'].append('unknown data query %r' % (item[:4],))
                ok = False
            view = g.getAllData()
            if view.buf is not data.buf or not same_view(ctx, view, data, Lc):
                problems.append('getAllData() is not the view of the current data block in the current layout')
            if m['saved'] is not None:
                r = equal_field(ctx, g._my_data[g._saveIdx], h.getLayout(m['saved']), m['S'], nd)
                if r == 'sat':
                    problems.append('held save was clobbered')
                elif r != 'unsat':
                    res['inconclusive'].append('unknown save query %r' % (item[:4],))
                    ok = False
                if getattr(g, '_savedLayout', None) != m['saved']:
                    problems.append('saved layout name is %r, expected %r' % (getattr(g, '_savedLayout', None), m['saved']))
        if problems:
            confirm('; '.join(problems), ctx, argname)
        elif ok:
            res['discharged'] += 1
            res['nontrivial'].append('%s|%s|%s|%s|%s|%s|%s|%s' % (lkey, rank, op, pre['has_save'], pre['perm'], pre['cur'], pre['saved'], argname))
            if len(res['samples']) < 2:
                res['samples'].append(dict(layouts=lkey, pre_state=pre, op=op, arg=argname, outcome=status))
    res['stats'] = symx.GLOBAL.as_dict()
    symx.GLOBAL.__init__()
    res['wall'] = round(time.time() - t0, 2)
    res['canary'] = canary[0] if canary else None
    return res


def same_view(ctx, view, data, layout):
    """view must be the leading layout.size elements of the data block reshaped to layout.shape"""
    if view.ndim != layout.ndims or view.perm != list(range(view.ndim)):
        return False
    bad = [zi(view.off) != 0]
    for a in range(view.ndim):
        bad.append(zi(view.shape[a]) != zi(layout.shape[a]))
        bad.append(zi(view.ranges[a][0]) != 0)
        bad.append(zi(view.pshape[a]) != zi(layout.shape[a]))
    return ctx.check(z3.Or(bad)) == 'unsat'


# ----------------------------------------------------------------------------- concrete replay
def concrete_history_search(lkey, shape, pre, op, arg, canary, maxlen=7):
    """real Grid + real LayoutHandler on numpy, 'nranks' simulated ranks; breadth-first search over operation
    sequences for the discrete pre-state, then the operation; compares every rank with a numpy reference"""
    real, _ = LS.modules()
    greal = H.repo_import('pygyro.model.grid')
    if canary:
        greal = H.mutant_module(greal, canary[1])
    nd, nprocs, layouts = LAYOUT_SETS[lkey]
    names = list(layouts)
    nranks = int(np.prod(nprocs))
    eta = [np.arange(n, dtype=float) for n in shape]

    def run_sequence(seq, at):
        """returns (discrete state of rank 0 before the last op, list of problems)"""
        def rankfn(comm):
            with warnings.catch_warnings():
                warnings.simplefilter('ignore')
                h = real.getLayoutHandler(comm, dict(layouts), list(nprocs), eta)
                g = greal.Grid(eta, [None] * nd, h, names[0], comm=comm, allocateSaveMemory=pre['has_save'])
                ref = np.arange(int(np.prod(shape)), dtype=float).reshape(shape) + 1
                refsave = None
                cur, saved = names[0], None

                def load(field):
                    L = h.getLayout(g.currentLayout)
                    sl = tuple(slice(s, e) for s, e in zip(L.starts, L.ends))
                    g.getAllData()[...] = np.transpose(field, L.dims_order)[sl]
                load(ref)
                probs = []
                state = None
                for k, (o, a) in enumerate(seq):
                    if k == at:
                        state = dict(perm=[g._dataIdx, g._buffIdx, g._saveIdx], cur=g.currentLayout,
                                     not_saved=getattr(g, 'notSaved', True), saved=getattr(g, '_savedLayout', None) if not getattr(g, 'notSaved', True) else None,
                                     stale=getattr(g, '_savedLayout', None) if getattr(g, 'notSaved', True) else None)
                    try:
                        if o == 'setLayout':
                            g.setLayout(a)
                            cur = a
                        elif o == 'save':
                            legal = pre['has_save'] and saved is None
                            try:
                                g.saveGridValues()
                                if not legal:
                                    probs.append('save accepted although it must be refused')
                                refsave, saved = ref.copy(), cur
                            except AssertionError:
                                if legal:
                                    probs.append('save refused although legal')
                        elif o == 'restore':
                            legal = pre['has_save'] and saved is not None
                            try:
                                g.restoreGridValues()
                                if not legal:
                                    probs.append('restore accepted although it must be refused')
                                else:
                                    ref, cur, saved = refsave, saved, None
                            except AssertionError:
                                if legal:
                                    probs.append('restore refused although legal')
                        elif o == 'free':
                            legal = pre['has_save'] and saved is not None
                            try:
                                g.freeGridSave()
                                if not legal:
                                    probs.append('free accepted although it must be refused')
                                saved = None
                            except AssertionError:
                                if legal:
                                    probs.append('free refused although legal')
                        elif o == 'write':
                            ref = ref * 3 + 7
                            load(ref)
                    except Exception as e:
                        probs.append('%s raised %s: %s' % (o, type(e).__name__, e))
                        break
                    L = h.getLayout(cur)
                    if g.currentLayout != cur:
                        probs.append('currentLayout %s != %s after %s' % (g.currentLayout, cur, o))
                        break
                    sl = tuple(slice(s, e) for s, e in zip(L.starts, L.ends))
                    expd = np.transpose(ref, L.dims_order)[sl]
                    got = g.getAllData()
                    if got.shape != expd.shape or not np.array_equal(got, expd):
                        probs.append('after %r the visible data differs from the single-array model' % ([o, a],))
                        break
                return state, probs
        out = simmpi.World(nranks).run(rankfn)
        return out[0][0], [p for s, pr in out for p in pr]

    ops = [('setLayout', n) for n in names]
    if pre['has_save']:
        ops += [('save', None), ('restore', None), ('free', None)]
    target = (tuple(pre['perm']), pre['cur'], bool(pre['not_saved']), pre['saved'], pre.get('stale') if pre['has_save'] else None)

    def key(state):
        perm = list(state['perm'])
        if not pre['has_save']:
            perm = perm[:2] + [2]
        return (tuple(perm), state['cur'], bool(state['not_saved']), state['saved'], state.get('stale') if pre['has_save'] else None)

    # breadth-first search over *discrete states* reached by concrete runs of the real code
    seen = set()
    frontier = [[]]
    for length in range(maxlen):
        nxt = []
        for seq in frontier:
            try:
                state, probs = run_sequence(seq + [(op, arg)], len(seq))
            except Exception as e:
                continue
            if state is None:
                continue
            k = key(state)
            if k == target:
                # the operation itself, then (if a save is still held) a restore to make a clobbered save visible
                tail = [(op, arg)]
                tail_restore = pre['has_save'] and ((not pre['not_saved'] and op not in ('restore', 'free')) or (pre['not_saved'] and op == 'save'))
                if tail_restore:
                    tail.append(('restore', None))
                # follow-up operations make a corrupted bookkeeping state (aliased buffers, clobbered save) visible:
                # layout round trip, then (with save memory) a second save / layout change / restore cycle
                others = [n for n in names]
                tail += [('setLayout', n) for n in others] + [('setLayout', others[0])]
                if pre['has_save']:
                    tail += [('save', None), ('setLayout', others[-1]), ('write', None), ('setLayout', others[0]), ('restore', None), ('setLayout', others[-1])]
                try:
                    state, probs = run_sequence(seq + tail, len(seq))
                except Exception as e:
                    probs = ['%s: %s' % (type(e).__name__, e)]
                return (probs[0] + ' [history %r]' % (seq + tail,)) if probs else None
            if k in seen:
                continue
            seen.add(k)
            for o in ops:
                nxt.append(seq + [o])
        frontier = nxt
        if not frontier:
            break
    return 'unreachable'


CANARIES = [
    ('setLayout uses save buffer as scratch even while a save is held', [(
        "        if (self.hasSaveMemory and self.notSaved):\n            self._layout_manager.transpose(",
        "        if (self.hasSaveMemory):\n            self._layout_manager.transpose(")]),
    ('restore forgets to swap the indices', [(
        "        self._dataIdx, self._saveIdx = self._saveIdx, self._dataIdx\n        self.notSaved = True",
        "        self._dataIdx, self._buffIdx = self._buffIdx, self._dataIdx\n        self.notSaved = True")]),
    ('second save accepted', [("        assert self.hasSaveMemory\n        assert self.notSaved\n\n        self._my_data", "        assert self.hasSaveMemory\n\n        self._my_data")]),
]


def main():
    run = H.Run(PID, 'proof')
    real, lay = LS.modules()
    greal, gsym, shim = grid_modules()
    if run.args.replay:
        rp = json.load(open(run.args.replay))['replay']
        print(concrete_history_search(rp['layouts'], rp['shape'], rp['pre_state'], rp['op'], rp['arg'], None))
        sys.exit(0)
    G = greal.Grid
    run.functions = H.src_info(G.__init__, G.setLayout, G.saveGridValues, G.restoreGridValues, G.freeGridSave, G.getAllData,
                               real.LayoutHandler.__init__)
    quick = run.tier == 'quick'
    items = []
    for lkey in (['2d'] if quick else ['2d', 'phys3']):
        nd, nprocs, layouts = LAYOUT_SETS[lkey]
        for rank in range(int(np.prod(nprocs))):
            for op in OPS:
                items.append((lkey, rank, 4 if lkey == '2d' else 3, op, None))
    for cn in CANARIES:
        for op in OPS:
            items.append(('2d', 0, 3, op, cn))
    caught = {}
    for r in H.pmap(work, items, run.args.jobs):
        if r.get('canary'):
            run.add_stats(r.get('stats', {}))
            caught[r['canary']] = caught.get(r['canary'], False) or bool(r['violations'])
            continue
        run.merge(r)
    for cn in CANARIES:
        hit = caught.get(cn[0], False)
        run.canaries.append(dict(name=cn[0], detected=hit))
        if not hit:
            run.canary_miss(cn[0], caught)
    run.stubs = LS.stubs() + ['pygyro.model.grid np/len shims', 'LayoutHandler.transpose replaced by its contract (established by C01/C03)']
    run.bounds = dict(extents='n_i <= 4 (2-D set) / 3 (3-D set)', operations='one operation from every valid pre-state (inductive step)',
                      layout_sets=list(LAYOUT_SETS) if not quick else ['2d'])
    run.outside = ['extents above the bound', 'real/complex payload (uninterpreted sort)', 'the transposes themselves (C01/C03)']
    run.assumptions = ['representation invariant: buffer indices are a permutation; my_data[dataIdx] holds the field in the current layout; '
                       'a held save is in my_data[saveIdx] in the saved layout; _f is the view of the data block',
                       'transpose contract of C01/C03']
    run.finish(
        explanation='Inductive step: pre-state = arbitrary state satisfying the representation invariant (discrete part forked by the '
                    'solver, extents and contents symbolic), one real Grid operation, z3 decides the post-state satisfies the invariant '
                    'and equals the single-array reference model; refusal (AssertionError) exactly for save-while-saved, '
                    'restore/free without save, save without save memory. Violations are replayed by searching a concrete history on the '
                    'real Grid + real LayoutHandler (numpy, thread MPI).',
        rule='case = (layout set, rank, operation) x feasible path = (hasSaveMemory, index permutation, current layout, saved?, saved layout, argument, class of extents)')


if __name__ == '__main__':
    main()
