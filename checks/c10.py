"""C10 -- flux-surface advection is a field-aligned shift along z.

The real FluxSurfaceAdvection (constructor: integer stencil shifts by floor, theta shifts, first barycentric formula with
the on-node special case; step: theta interpolation of every z line, get_lagrange_vals, flux_advection) runs with the
whole surface f[theta,z] symbolic and the time step dt a z3 Real in an interval (so the displacement v*b_z*dt of each
(r,v) sweeps several cells of either sign).  The floor forks on dt: a path is one stencil position (or the on-node
case).  z3 decides, coefficient by coefficient in f, that each new value equals
   sum_j L_j(foot) * S_{i+s_j}(theta_k + iota (z_{i+s_j}-z_i)/R0),    foot = z_i - v b_z dt,
with L_j the degree-5 Lagrange basis (product definition) on the six nodes around the foot and S the theta-spline
(independent oracle).  Constants preserved / exact circular shift / z-shift commutation are consequences.
"""
import json
import sys
import time
from fractions import Fraction as Fr

import numpy as np
import z3

from lib import symx, numenv, dist
from lib import harness as H
from lib import splineoracle as SO
from lib.symx import K, SReal, zt, toreal
from checks.c07 import oracle_knots, apply_canary, undo_canary, decide
from checks.c13 import TwistConstants, TWISTS, R0, TWO_PI

PID = 'C10'


def work(item):
    nq, nz, tdeg, tpath, twist_mode, ridx, vidx, cells, canary = item[:9]
    window = item[9] if len(item) > 9 else None
    hist = window is not None and window[0] % 2 == 0
    res = H.worker_result()
    m = dist.mods()
    adv = H.repo_import('pygyro.advection.advection')
    acc = H.repo_import('pygyro.advection.accelerated_advection_steps')
    t0 = time.time()
    if canary:
        apply_canary(dict(m, adv=adv, acc=acc), canary)
    numenv.enable(extra_modules=[(adv, None), (acc, None)])
    symx.set_bv(None)
    symx.DIV_ZERO = 'poison'
    # the constructor gets a *real* Layout ('flux_surface' ordering [0,3,1,2]).  Radius-dependent twist: the block of one rank
    # of a 2x2 process grid (r and v_parallel both start at an offset, local index != global index != 0 for some items);
    # no twist: a single process.
    if twist_mode in ('radial', 'const'):
        nr, nv, roff, voff, nprocs = 4, 4, 2, 1, (2, 2)
    else:
        nr, nv, roff, voff, nprocs = 2, 3, 0, 0, (1, 1)
    rg, vg = ridx + roff, vidx + voff            # global indices of the line advected by this item
    rvals = [Fr(1) + Fr(i, 2) for i in range(nr)]
    twists = [Fr(0) if twist_mode == 'zero' else TWISTS[(i - roff + 1) % 4] for i in range(nr)]
    if twist_mode == 'const':
        # the same non-zero iota on every flux surface: r*iota/R0 (hence b_z) still differs from surface to surface
        rvals = [Fr(5, 12), Fr(3, 4), Fr(4, 3), Fr(15, 8)]
        twists = list(rvals)
    vvals = [Fr(-1, 3)] * voff + [Fr(-2), Fr(1, 2), Fr(3)]

    def real_layout(eta):
        rank = [rg * nprocs[0] // nr, vg * nprocs[1] // nv]
        L = m['layout'].Layout('flux_surface', list(nprocs), [0, 3, 1, 2], eta, rank)
        assert L.starts[0] <= rg < L.ends[0] and L.starts[1] <= vg < L.ends[1]
        return L, rg - int(L.starts[0]), vg - int(L.starts[1])
    dz = Fr(1, 2)
    z0 = Fr(7, 2) if twist_mode in ('radial', 'const') else Fr(0)          # the z grid of the twisted variant does not start at 0
    qbreaks = [TWO_PI * Fr(i, nq) for i in range(nq + 1)]
    T = oracle_knots(qbreaks, tdeg, True, tpath)
    bz = {Fr(0): Fr(1), Fr(3, 4): Fr(4, 5), Fr(5, 12): Fr(12, 13), Fr(8, 15): Fr(15, 17), Fr(4, 3): Fr(3, 5), Fr(15, 8): Fr(8, 17)}[twists[rg]]
    vel = vvals[vg]
    # dt range such that |displacement| <= cells * dz for the chosen (r, v)
    dtmax = Fr(cells) * dz / (abs(vel) * bz)

    st = {}

    def body(ctx):
        tb = dist.make_basis(tdeg, True, qbreaks, uniform=(tpath == 'cu'))
        qpts = list(tb.greville)
        zbreaks = [z0 + dz * k for k in range(nz + 1)]
        zb = dist.make_basis(3, True, zbreaks, uniform=False)
        eta = [numenv.karr(rvals), np.array(qpts, dtype=object), numenv.karr([z0 + dz * k for k in range(nz)]), numenv.karr(vvals)]
        consts = TwistConstants(rvals, twists)
        dt = z3.Real('dt')
        ctx.assume(z3.And(dt >= -z3.RealVal(dtmax), dt <= z3.RealVal(dtmax)))
        if window is not None:
            # work item = one window of the displacement (in cells): keeps items small so that they run in parallel
            disp = z3.RealVal(-vel * bz) * dt
            ctx.assume(z3.And(disp >= z3.RealVal(window[0] * dz), disp <= z3.RealVal(window[1] * dz)))
        L, rl, vl = real_layout(eta)
        st.update(dt=dt, qpts=qpts)
        fa = adv.FluxSurfaceAdvection(eta, [tb, zb], L, SReal(dt), consts)
        f = dist.symbolic_field('f', (nq, nz))
        f0 = f.copy()
        st.update(dt=dt, f0=f0, qpts=qpts, fa=fa)
        if hist:
            # history: the same object has already advanced another (r, v) line (its work arrays are reused)
            g = np.empty((nq, nz), dtype=object)
            for idx in np.ndindex(nq, nz):
                g[idx] = K(Fr(1 + idx[0] + 3 * idx[1], 4))
            fa.step(g, (vl + 1) % (L.ends[1] - L.starts[1]), (rl + 1) % (L.ends[0] - L.starts[0]))
        fa.step(f, vl, rl)
        return f

    def replay(mdl, entry, fname):
        dtv = symx.model_value(mdl, SReal(st['dt']))
        numenv.disable()
        symx.DIV_ZERO = 'raise'
        try:
            kn = m['spl'].make_knots(np.array([float(b) for b in qbreaks]), tdeg, True)
            tb = m['spl'].BSplines(kn, tdeg, True, tpath == 'cu')
            zkn = m['spl'].make_knots(np.array([float(z0) + float(dz) * k for k in range(nz + 1)]), 3, True)
            zb = m['spl'].BSplines(zkn, 3, True, False)
            qpts = np.array(tb.greville, dtype=float)
            eta = [np.array([float(x) for x in rvals]), qpts, np.array([float(z0) + float(dz) * k for k in range(nz)]), np.array([float(x) for x in vvals])]

            class FC:
                R0 = float(R0)

                @staticmethod
                def iota(r):
                    mp = {round(float(rv), 12): float(t * R0 / rv) for rv, t in zip(rvals, twists)}
                    return np.array([mp[round(float(x), 12)] for x in np.atleast_1d(r)])
            L, rl, vl = real_layout(eta)
            fa = adv.FluxSurfaceAdvection(eta, [tb, zb], L, float(dtv), FC)
            rng = np.random.RandomState(5)
            f = rng.rand(nq, nz) * 2 - 1
            fin = f.copy()
            if hist:
                g = np.array([[(1 + i + 3 * j) / 4.0 for j in range(nz)] for i in range(nq)])
                fa.step(g, (vl + 1) % (L.ends[1] - L.starts[1]), (rl + 1) % (L.ends[0] - L.starts[0]))
            fa.step(f, vl, rl)
            exp = oracle_float(fin, qpts, float(dtv))
            err = float(np.max(np.abs(f - exp)))
        except Exception as e:
            return 'exception %s: %s' % (type(e).__name__, e), dtv
        finally:
            symx.DIV_ZERO = 'poison'
            numenv.enable()
        if err > 1e-8:
            return 'step differs from the field-aligned Lagrange/spline formula by %.3g (dt=%s, displacement %.4g cells)' % (
                err, float(dtv), float(-vel * bz * dtv / dz)), dtv
        return None, dtv

    def oracle_float(fin, qpts, dtv):
        qf = [Fr(q).limit_denominator(10 ** 12) for q in qpts]
        coefs = [SO.interpolant_coeffs(T, tdeg, True, nq, qf, [Fr(x).limit_denominator(10 ** 12) for x in fin[:, i]]) for i in range(nz)]
        zdist = -vel * bz * Fr(dtv).limit_denominator(10 ** 12)
        import math
        mfl = math.floor(zdist / dz)
        shifts = [mfl + l for l in range(-2, 4)]
        iota = twists[rg] * R0 / rvals[rg]
        out = np.empty((nq, nz))
        L = []
        for j, sj in enumerate(shifts):
            num, den = Fr(1), Fr(1)
            for jj, sk in enumerate(shifts):
                if jj != j:
                    num *= (zdist - sk * dz)
                    den *= (sj * dz - sk * dz)
            L.append(num / den)
        for k in range(nq):
            for i in range(nz):
                acc = Fr(0)
                for j, sj in enumerate(shifts):
                    th = (qf[k] + iota * dz * sj / R0) % TWO_PI
                    acc += L[j] * SO.eval_fraction(T, tdeg, coefs[(i + sj) % nz], th, 0)
                out[k, i] = float(acc)
        return out

    npaths = 0
    for ctx, (kind, val) in symx.explore(body, timeout_ms=60000, index_cap=64):
        npaths += 1
        if kind == 'abort':
            if val.inconclusive:
                prob = None
                if 'dt' in st and ctx.check() == 'sat':
                    prob, dtv = replay(ctx.model(), None, None)      # the float run may decide what the symbolic run could not finish
                if prob:
                    res['obligations'] += 1
                    res['violations'].append(('flux:%s' % tpath, '%s (witness from the float run; symbolic run: %s)' % (prob, val.why), dict(kind='flux', item=[str(x) for x in item[:8]], dt=str(dtv))))
                else:
                    res['inconclusive'].append('abort %s %r' % (val.why, item[:8]))
            continue
        if kind == 'exc':
            res['obligations'] += 1
            if ctx.check() == 'sat':
                prob, dtv = replay(ctx.model(), None, None)
                if prob:
                    res['violations'].append(('flux:exception', '%s: %s / %s' % (type(val).__name__, str(val)[:100], prob), dict(kind='flux', item=[str(x) for x in item[:8]], dt=str(dtv))))
                    continue
            res['inconclusive'].append('exception on the model only: %r %r' % (val, item[:8]))
            continue
        dt, f0, qpts = SReal(st['dt']), st['f0'], [symx.fval(p) for p in st['qpts']]
        zdist = -K(vel * bz) * dt
        # the stencil position the path fixes: floor(zdist/dz) = mfl
        mfl = None
        for cand in range(-cells - 1, cells + 1):
            if ctx.check(z3.Not(z3.And(toreal(zt(zdist)) >= z3.RealVal(cand * dz), toreal(zt(zdist)) < z3.RealVal((cand + 1) * dz)))) == 'unsat':
                mfl = cand
                break
        if mfl is None:
            res['inconclusive'].append('path does not fix the stencil position %r' % (item[:8],))
            continue
        shifts = [mfl + l for l in range(-2, 4)]
        iota = twists[rg] * R0 / rvals[rg]
        coefs = [SO.interpolant_coeffs(T, tdeg, True, nq, qpts, list(f0[:, i])) for i in range(nz)]
        L = []
        for j, sj in enumerate(shifts):
            num, den = K(1), Fr(1)
            for jj, sk in enumerate(shifts):
                if jj != j:
                    num = num * (zdist - K(sk * dz))
                    den *= (sj * dz - sk * dz)
            L.append(num * K(1 / den))
        fvars = [x.t for x in f0.ravel()]
        names = set(v.decl().name() for v in fvars)
        # spline values along the field line are concrete linear forms: S[i][k][j]
        for k in range(nq):
            for i in range(nz):
                acc = K(0)
                for j, sj in enumerate(shifts):
                    th = (qpts[k] + iota * dz * sj / R0) % TWO_PI
                    cell = SO.find_cell_fraction(T, tdeg, th)
                    B = SO.cell_basis(T, tdeg, cell, th, 0)
                    v = K(0)
                    for c, b in zip(coefs[(i + sj) % nz], B):
                        if not (isinstance(b, int) and b == 0):
                            v = v + c * b
                    acc = acc + L[j] * v
                res['obligations'] += 1
                diff = toreal(zt(val[k, i])) - toreal(zt(acc))
                if symx.lin_degree(diff, names) is None:
                    res['inconclusive'].append('result not syntactically linear in f %r' % (item[:8],))
                    continue
                verdict = 'unsat'
                cts = [(cname, ct) for cname, ct in symx.coefficient_terms(diff, fvars).items()
                       if not (z3.is_rational_value(ct) and ct.numerator_as_long() == 0)]
                if cts:
                    rr, mm = decide(ctx, z3.Or([ct != 0 for _, ct in cts]), res, 'flux')
                    if rr == 'sat':
                        cname = next((cn for cn, ct in cts if not z3.is_false(mm.eval(ct != 0, model_completion=True))), cts[0][0])
                        prob, dtv = replay(mm, (k, i), cname)
                        rep = dict(kind='flux', item=[str(x) for x in item[:8]], entry=[k, i], data=cname, dt=str(dtv), concrete=prob, canary=bool(canary))
                        if prob:
                            res['violations'].append(('flux:%s' % tpath, '%s %r' % (prob, item[:8]), rep))
                            verdict = 'violation'
                        else:
                            res['inconclusive'].append('model does not reproduce in floats: %r' % rep)
                            verdict = 'inc'
                    elif rr != 'unsat':
                        verdict = 'unknown'
                        res['inconclusive'].append('unknown flux query %r' % (item[:8],))
                if verdict == 'unsat':
                    res['discharged'] += 1
                elif verdict == 'violation':
                    break
            else:
                continue
            break
        if ctx.check() == 'sat':
            res['nontrivial'].append('flux|%r|m=%d|%s' % (item[:8], mfl, ''.join('T' if d['choice'] else 'F' for d in ctx.decisions[-8:])))
            if len(res['samples']) < 1:
                res['samples'].append(dict(config=[str(x) for x in item[:8]], stencil_floor=mfl, example_dt=str(symx.model_value(ctx.model(), dt))))
    symx.DIV_ZERO = 'raise'
    numenv.disable()
    if canary:
        undo_canary(None)
    res['stats'] = symx.GLOBAL.as_dict()
    symx.GLOBAL.__init__()
    res['paths'] = npaths
    res['wall'] = round(time.time() - t0, 2)
    res['canary'] = canary[0] if canary else None
    return res


CANARIES = [
    ('stencil centred one node too far left', 'adv', [("            np.arange(-self._zLagrangePts//2+1,\n                      self._zLagrangePts//2+1)[None, None, :]",
                                                       "            np.arange(-self._zLagrangePts//2,\n                      self._zLagrangePts//2)[None, None, :]")]),
    ('weights and values paired in reverse', 'acc', [("            f[j, i] = coeffs[0]*vals[i, j, 0]\n            for k in range(1, len(coeffs)):\n                f[j, i] += coeffs[k]*vals[i, j, k]",
                                                     "            f[j, i] = coeffs[0]*vals[i, j, 0]\n            for k in range(1, len(coeffs)):\n                f[j, i] += coeffs[k]*vals[i, j, len(coeffs)-k] if k > 1 else coeffs[k]*vals[i, j, k]")]),
]


def main():
    run = H.Run(PID, 'proof')
    m = dist.mods()
    adv = H.repo_import('pygyro.advection.advection')
    acc = H.repo_import('pygyro.advection.accelerated_advection_steps')
    if run.args.replay:
        print(json.dumps(json.load(open(run.args.replay))['replay'], indent=1))
        sys.exit(0)
    FA = adv.FluxSurfaceAdvection
    run.functions = H.src_info(FA.__init__, FA._getLagrangePts, FA.step, acc.get_lagrange_vals, acc.general_get_lagrange_vals, acc.flux_advection)
    quick = run.tier == 'quick'
    items = []
    if quick:
        items += [(4, 7, 3, 'cu', 'zero', 0, 0, 2, None), (4, 7, 3, 'cu', 'radial', 1, 2, 2, None), (4, 7, 2, 'nu', 'radial', 0, 1, 1, None),
                  (4, 7, 3, 'cu', 'const', 1, 0, 1, None)]
    else:
        for tw in ('zero', 'radial'):
            for ridx in (0, 1):
                for vidx in (0, 1, 2):
                    items.append((4, 7, 3, 'cu', tw, ridx, vidx, 3, None))
        items += [(4, 7, 3, 'cu', 'const', 1, 2, 2, None), (4, 7, 2, 'nu', 'const', 0, 1, 2, None), (4, 7, 3, 'cu', 'const', 1, 1, 2, None)]
        items += [(6, 8, 3, 'nu', 'radial', 1, 0, 2, None), (5, 7, 1, 'nu', 'radial', 0, 2, 2, None), (4, 9, 2, 'nu', 'zero', 0, 1, 9, None)]
    # displacements of more than the whole z domain with non-zero twist (each complete turn adds iota*Lz/R0 to theta)
    extra = [(4, 7, 3, 'cu', 'radial', 1, 2, 9, None, (7, 8)), (4, 7, 3, 'cu', 'radial', 0, 0, 9, None, (-9, -8))]
    split = []
    for it in items:
        for c in range(-it[7], it[7]):
            split.append(it + ((c, c + 1),))
    items = split + extra
    items.append((4, 7, 3, 'cu', 'radial', 1, 2, 1, CANARIES[0]))
    items.append((4, 7, 3, 'cu', 'zero', 0, 0, 1, CANARIES[1]))
    caught = {}
    for r in H.pmap(work, items, run.args.jobs):
        if r.get('canary'):
            run.add_stats(r.get('stats', {}))
            caught[r['canary']] = bool(r['violations'])
            continue
        run.merge(r)
    for cn in CANARIES:
        hit = caught.get(cn[0], False)
        run.canaries.append(dict(name=cn[0], detected=hit))
        if not hit:
            run.canary_miss(cn[0], caught)
    numenv.enable(extra_modules=[(adv, None), (acc, None)])
    run.stubs = sorted(set(numenv.STUBS)) + ['array division by a possibly-zero term: numpy inf/nan semantics modelled by a poison value that may only be discarded by np.where']
    numenv.disable()
    run.bounds = dict(grid='ntheta 4-6, nz 7-9', displacement='|v b_z dt| <= 1..3 cells (thorough: up to 9 cells = more than the domain)',
                      twist='r*iota/R0 in {0, 3/4, 5/12}', splines='uniform cubic and general degrees 1-3 in theta')
    run.outside = ['irrational b_z', 'rounding', 'grid-level loop over (r,v) slices: C05']
    run.assumptions = ['exact reals for doubles', 'solver contracts of C08', 'theta grid from the double 2*pi']
    run.finish(
        explanation='Whole surface and dt symbolic; a path = stencil position (floor of the displacement) or on-node case; z3 decides per '
                    'output entry and per data coefficient the rational-function identity in dt between the code (first barycentric formula, '
                    'tables, weighted sum) and the statement (product-form Lagrange basis on the six nodes centred on the foot, theta-spline '
                    'along the field line, periodic wrap).',
        rule='case = (grid, theta spline, twist, r index, v index) x feasible path (stencil position / on-node)')


if __name__ == '__main__':
    main()
