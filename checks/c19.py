"""C19 (partial) -- the alternative numba / pythran source copies compute the same results as the pure-Python reference.

Only the last clause of the property is decided here: "the alternative numba/pythran source copies define the same
functions with the same results".  Each copy (pygyro/**/numba_*.py, pythran_*.py, advection/pythran_deps/*) is loaded from
the working tree with numba replaced by identity decorators, and every kernel is executed symbolically *side by side*
with the reference kernel on the same symbolic arguments (evaluation points, coefficients, data, shifts; knots concrete
rationals); z3 decides that outputs and in-place updates are equal on every path (translation validation between source
versions).  A reference function that a copy does not define is a violation of the clause.
NOT decided (and not claimed): that the pyccel-generated Fortran/C shared objects equal the interpreted source, and that the
documented build succeeds -- no Fortran/LLVM-IR -> SMT engine is available.
"""
import importlib.util
import inspect
import itertools
import json
import os
import sys
import time
import types
from fractions import Fraction as Fr

import numpy as np
import z3

from lib import symx, numenv, dist
from lib import harness as H
from lib import pyccelmodel as PM
from lib.symx import K, SReal, zt, toreal
from checks.c07 import breaks_family
from checks.c11 import Consts

PID = 'C19'
TIER = ['quick']          # set by main() before the workers are forked

FAMILIES = {
    'nu': ('pygyro.splines.spline_eval_funcs', ['splines/numba_spline_eval_funcs.py', 'splines/pythran_spline_eval_funcs.py', 'advection/pythran_deps/pythran_spline_eval_funcs.py']),
    'cu': ('pygyro.splines.cubic_uniform_spline_eval_funcs', ['splines/numba_cubic_uniform_spline_eval_funcs.py', 'splines/pythran_cubic_uniform_spline_eval_funcs.py',
                                                              'advection/pythran_deps/pythran_cubic_uniform_spline_eval_funcs.py']),
    'init': ('pygyro.initialisation.initialiser_funcs', ['initialisation/numba_initialiser_funcs.py', 'initialisation/pythran_initialiser_funcs.py',
                                                         'advection/pythran_deps/pythran_initialiser_funcs.py']),
    'poisson': ('pygyro.poisson.poisson_tools', ['poisson/numba_poisson_tools.py', 'poisson/pythran_poisson_tools.py']),
    'adv': ('pygyro.advection.accelerated_advection_steps', ['advection/numba_accelerated_advection_steps.py', 'advection/pythran_deps/pythran_accelerated_advection_steps.py']),
}


def install_numba_stub():
    def ident(*a, **k):
        if len(a) == 1 and callable(a[0]) and not k:
            return a[0]
        return lambda f: f

    class CC:
        def __init__(self, *a, **k):
            pass

        def export(self, *a, **k):
            return lambda f: f

        def compile(self):
            pass
    nb = types.ModuleType('numba')
    nb.njit = ident
    nb.jit = ident
    pycc = types.ModuleType('numba.pycc')
    pycc.CC = CC
    tp = types.ModuleType('numba.types')

    class NType:
        def __init__(self, n):
            self.n = n

        def __getitem__(self, k):
            return self

        def __call__(self, *a, **k):
            return self
    for n in ('f8', 'i4', 'b1', 'i8', 'void', 'FunctionType'):
        setattr(tp, n, NType(n))
    nb.pycc, nb.types = pycc, tp
    sys.modules.update({'numba': nb, 'numba.pycc': pycc, 'numba.types': tp})


_LOADED = {}
_MODELS = {}


class BuildUnavailable(Exception):
    pass


def load_copy(relpath):
    """load a source copy from the working tree under a private name; its sibling imports resolve to other copies"""
    if relpath in _LOADED:
        return _LOADED[relpath]
    if relpath.startswith('pyccel-model:'):
        # the reference source transformed to behave as the generated Fortran does at the modelled divergences
        ref = H.repo_import(FAMILIES[relpath.split(':')[1]][0])
        mod = PM.model_module(ref, 'c19' + relpath.replace(':', '_').replace('-', '_') + '_' + ref.__name__.split('.')[-1])
        _MODELS[relpath] = mod
        return mod
    if relpath.startswith('pyccel-build:'):
        # a real scratch pyccel build of the working tree (replays only)
        ref = H.repo_import(FAMILIES[relpath.split(':')[1]][0])
        b = PM.build_tree(H.REPO)
        ext = b['modules'].get(ref.__name__.split('.')[-1])
        if ext is None:
            raise BuildUnavailable('%s: %s' % (b['status'], b.get('failed') or b['log'][:200]))
        return PM.CompiledProxy(ext, ref)
    install_numba_stub()
    full = os.path.join(H.REPO, 'pygyro', relpath)
    base = os.path.basename(relpath)[:-3]
    kind = 'numba' if base.startswith('numba_') else 'pythran'
    d = os.path.dirname(relpath)
    # dependencies first
    if base.endswith('accelerated_advection_steps'):
        if kind == 'numba':
            for pk, f in (('splines', 'splines/numba_spline_eval_funcs.py'), ('splines', 'splines/numba_cubic_uniform_spline_eval_funcs.py'),
                          ('initialisation', 'initialisation/numba_initialiser_funcs.py')):
                m = load_copy(f)
                pkg = sys.modules.setdefault(pk, types.ModuleType(pk))
                name = os.path.basename(f)[:-3]
                setattr(pkg, name, m)
                sys.modules['%s.%s' % (pk, name)] = m
        else:
            for f in ('pythran_spline_eval_funcs.py', 'pythran_cubic_uniform_spline_eval_funcs.py', 'pythran_initialiser_funcs.py'):
                m = load_copy(os.path.join(d, f))
                sys.modules[f[:-3]] = m
    spec = importlib.util.spec_from_file_location('c19copy_' + relpath.replace('/', '_')[:-3], full)
    mod = importlib.util.module_from_spec(spec)
    spec.loader.exec_module(mod)
    _LOADED[relpath] = mod
    return mod


def public_functions(mod):
    return {k: v for k, v in vars(mod).items() if inspect.isfunction(v) and v.__module__ == mod.__name__ and not k.startswith('_')}


def patch_copy(mod):
    extra = {}
    if 'cubic_uniform' in mod.__name__:
        extra['int'] = numenv.symint
    numenv.patch_module(mod, extra)
    import numpy
    for k, v in list(vars(mod).items()):
        if v is numpy.empty_like:
            setattr(mod, k, lambda a, dtype=None: np.empty(np.shape(a), dtype=object))


def arr(vals):
    a = np.empty(len(vals), dtype=object)
    for i, v in enumerate(vals):
        a[i] = v
    return a


def sym_vec(name, n):
    return arr([SReal(z3.Real('%s%d' % (name, i))) for i in range(n)])


def sym_mat(name, n, m):
    a = np.empty((n, m), dtype=object)
    for i in range(n):
        for j in range(m):
            a[i, j] = SReal(z3.Real('%s_%d_%d' % (name, i, j)))
    return a


def scenarios(fam, ref):
    """list of (label, callable(module, ctx) -> list of outputs); every scenario is run on the reference and on each copy within
    one path so that the outputs can be compared term by term"""
    out = []
    if fam == 'nu':
        for degree, ncells, family in (((1, 2, 'irregular'), (3, 3, 'graded'), (4, 2, 'geometric')) if TIER[0] == 'quick' else
                                       ((1, 2, 'irregular'), (3, 3, 'graded'), (4, 2, 'geometric'), (2, 3, 'decreasing'), (5, 1, 'alternating'), (3, 5, 'uniform'), (2, 1, 'graded'))):
            breaks = breaks_family(family, ncells)
            from lib import splineoracle as SO
            T = SO.math_knots(breaks, degree, False)

            def mk(degree=degree, T=T, breaks=breaks, ncells=ncells):
                def run(mod, ctx):
                    fm = getattr(ctx, 'float_mode', False)          # float replay: plain numpy floats
                    KK = (lambda v: float(v)) if fm else K
                    farr = (lambda vs: np.array([float(v) for v in vs])) if fm else arr
                    empty = (lambda shape: np.zeros(shape)) if fm else (lambda shape: np.empty(shape, dtype=object))
                    kn = np.array([float(t) for t in T]) if fm else numenv.karr(T)
                    x = SReal(z3.Real('x'))
                    ctx.assume(z3.And(x.t >= z3.RealVal(breaks[0]), x.t <= z3.RealVal(breaks[-1])))
                    y = SReal(z3.Real('y'))
                    ctx.assume(z3.And(y.t >= z3.RealVal(breaks[0]), y.t <= z3.RealVal(breaks[-1])))
                    n = ncells + degree
                    c = sym_vec('c', n)
                    C = sym_mat('C', n, n)
                    if fm:
                        c, C, x, y = np.array(c, dtype=float), np.array(C, dtype=float), float(x), float(y)
                        lo_, hi_ = float(breaks[0]), float(breaks[-1])
                        if not (lo_ <= x <= hi_):
                            x = lo_ + (abs(x) % 1.0) * (hi_ - lo_)
                        if not (lo_ <= y <= hi_):
                            y = lo_ + (abs(y) % 1.0) * (hi_ - lo_)
                    res = []
                    span = mod.nu_find_span(kn, degree, x)
                    res.append(span)
                    v = empty(degree + 1)
                    mod.nu_basis_funs(kn, degree, x, span, v)
                    res += list(v)
                    v = empty(degree + 1)
                    mod.nu_basis_funs_1st_der(kn, degree, x, span, v)
                    res += list(v)
                    for der in (0, 1):
                        res.append(mod.nu_eval_spline_1d_scalar(x, kn, degree, c, der))
                        yv = empty(3)              # points not in increasing order
                        mod.nu_eval_spline_1d_vector(farr([KK(breaks[-1]), x, KK(breaks[0])]), kn, degree, c, yv, der)
                        res += list(yv)
                    for d1, d2 in ((0, 0), (0, 1), (1, 0), (1, 1)):
                        res.append(mod.nu_eval_spline_2d_scalar(x, y, kn, degree, kn, degree, C, d1, d2))
                        z = empty((2, 2))          # neither X nor Y is increasing
                        mod.nu_eval_spline_2d_cross(farr([x, KK(breaks[0])]), farr([KK(breaks[-1]), y]), kn, degree, kn, degree, C, z, d1, d2)
                        res += list(z.ravel())
                        zv = empty(2)
                        mod.nu_eval_spline_2d_vector(farr([x, KK(breaks[0])]), farr([y, KK(breaks[-1])]), kn, degree, kn, degree, C, zv, d1, d2)
                        res += list(zv)
                    return res
                return run
            out.append(('nu degree %d %s %d cells' % (degree, family, ncells), mk()))
    elif fam == 'cu':
        for ncells in ((1, 3) if TIER[0] == 'quick' else (1, 2, 3, 5)):
            def mk(ncells=ncells, below=False):
                def run(mod, ctx):
                    xmin, dx = Fr(-1), Fr(1, 2)
                    kn = numenv.karr([xmin, xmin + dx * ncells, dx, ncells])
                    kn2 = numenv.karr([Fr(2), Fr(2) + Fr(1, 3) * ncells, Fr(1, 3), ncells])
                    x = SReal(z3.Real('x'))
                    if below:
                        # extrapolation just below the domain (int() truncates toward zero there: the first cell is continued)
                        ctx.assume(z3.And(x.t >= z3.RealVal(xmin - dx / 2), x.t <= z3.RealVal(xmin)))
                    else:
                        ctx.assume(z3.And(x.t >= z3.RealVal(xmin), x.t <= z3.RealVal(xmin + dx * ncells)))
                    y = SReal(z3.Real('y'))
                    ctx.assume(z3.And(y.t >= 2, y.t <= z3.RealVal(Fr(2) + Fr(1, 3) * ncells)))
                    n = ncells + 3
                    c = sym_vec('c', n)
                    C = sym_mat('C', n, n)
                    res = []
                    span, off = mod.cu_find_span(kn[0], kn[1], kn[2], x, ncells)
                    res += [span, off]
                    v = np.empty(4, dtype=object)
                    mod.cu_basis_funs(span, off, v)
                    res += list(v)
                    v = np.empty(4, dtype=object)
                    mod.cu_basis_funs_1st_der(span, off, kn[2], v)
                    res += list(v)
                    for der in (0, 1):
                        res.append(mod.cu_eval_spline_1d_scalar(x, kn, 3, c, der))
                        yv = np.empty(2, dtype=object)
                        mod.cu_eval_spline_1d_vector(arr([x, kn[1]]), kn, 3, c, yv, der)
                        res += list(yv)
                    for d1, d2 in ((0, 0), (0, 1), (1, 0), (1, 1)):
                        res.append(mod.cu_eval_spline_2d_scalar(x, y, kn, 3, kn2, 3, C, d1, d2))
                        z = np.empty((2, 1), dtype=object)
                        mod.cu_eval_spline_2d_cross(arr([x, kn[0]]), arr([y]), kn, 3, kn2, 3, C, z, d1, d2)
                        res += list(z.ravel())
                        zv = np.empty(2, dtype=object)
                        mod.cu_eval_spline_2d_vector(arr([x, kn[0]]), arr([y, kn2[1]]), kn, 3, kn2, 3, C, zv, d1, d2)
                        res += list(zv)
                    return res
                return run
            out.append(('uniform cubic %d cells' % ncells, mk()))
            if ncells == 3:
                out.append(('uniform cubic %d cells, x up to half a cell below xmin' % ncells, mk(below=True)))

        def cell_edges(mod, ctx):
            # float-only: evaluation points computed as k * dx on a grid with dx = 0.1 (quotients that round to whole numbers)
            if not getattr(ctx, 'float_mode', False):
                return []
            rng = np.random.RandomState(5)
            res = []
            for (xmin, dx, n) in ((0.0, 0.1, 10), (-0.7, 0.1, 14), (0.3, 0.7, 9)):
                kn = np.array([xmin, xmin + dx * n, dx, n])
                c = rng.rand(n + 3)
                for k in range(n + 1):
                    for x in (k * dx + xmin, xmin + k * dx, (xmin / dx + k) * dx):
                        if x < xmin or x > kn[1]:
                            continue
                        sp, off = mod.cu_find_span(kn[0], kn[1], kn[2], x, n)
                        res += [sp, off, mod.cu_eval_spline_1d_scalar(x, kn, 3, c, 0), mod.cu_eval_spline_1d_scalar(x, kn, 3, c, 1)]
            return res
        out.append(('float: uniform cubic kernels at points k*dx', cell_edges))
    elif fam == 'init':
        def run(mod, ctx):
            r, q, zz, v = [SReal(z3.Real(n)) for n in ('r', 'q', 'z', 'v')]
            ctx.assume(r.t > 0)
            cn = [K(getattr(Consts, k)) for k in ('CN0', 'kN0', 'deltaRN0', 'rp', 'CTi', 'kTi', 'deltaRTi')]
            res = [mod.n0(r, cn[0], cn[1], cn[2], cn[3]), mod.Ti(r, cn[4], cn[5], cn[6], cn[3]), mod.perturbation(r, q, zz, 3, 1, cn[3], K(8), K(10)),
                   mod.f_eq(r, v, *cn), mod.n0deriv_normalised(r, cn[1], cn[3], cn[2]), mod.Te(r, cn[4], cn[5], cn[6], cn[3])]
            args = (3, 1, K(Fr(1, 1000)), cn[0], cn[1], cn[2], cn[3], cn[4], cn[5], cn[6], K(8), K(10))
            res.append(mod.init_f(r, q, zz, v, *args))
            s = np.empty((2, 2), dtype=object)
            mod.init_f_flux(s, r, arr([q, K(1)]), arr([zz, K(2)]), v, *args)
            res += list(s.ravel())
            s = np.empty((2, 2), dtype=object)
            mod.init_f_pol(s, arr([r, K(2)]), arr([q, K(1)]), zz, v, *args)
            res += list(s.ravel())
            s = np.empty((2, 2), dtype=object)
            mod.init_f_vpar(s, r, arr([q, K(1)]), zz, arr([v, K(Fr(1, 2))]), *args)
            res += list(s.ravel())
            s = np.empty((2, 2), dtype=object)
            mod.feq_vector(s, arr([r, K(2)]), arr([v, K(Fr(1, 2))]), *cn)
            res += list(s.ravel())
            return res
        out.append(('initialisation functions', run))
    elif fam == 'poisson':
        def run(mod, ctx):
            g = np.empty((2, 2, 2, 3), dtype=object)
            for idx in itertools.product(range(2), range(2), range(2), range(3)):
                g[idx] = SReal(z3.Real('g_%d_%d_%d_%d' % idx))
            feq = sym_mat('feq', 2, 3)
            w = sym_vec('w', 3)
            if getattr(ctx, 'float_mode', False):
                # the density grids of the solver are complex and hold the previous step's modes when the kernels are called
                g, feq, w = np.array(g, dtype=float), np.array(feq, dtype=float), np.array(w, dtype=float)
                r1 = np.full((2, 2, 2), 3.0 + 4.0j)
                r2 = np.full((2, 2, 2), -1.0 + 2.0j)
            else:
                r1 = np.empty((2, 2, 2), dtype=object)
                r2 = np.empty((2, 2, 2), dtype=object)
            mod.get_perturbed_rho(r1, feq, g, w)
            mod.get_rho(r2, g, w)
            if getattr(ctx, 'float_mode', False):
                return list(r1.ravel().real) + list(r1.ravel().imag) + list(r2.ravel().real) + list(r2.ravel().imag)
            return list(r1.ravel()) + list(r2.ravel())
        out.append(('density kernels', run))
    elif fam == 'adv':
        for cub in (True, False):
            def mk(cub=cub):
                def run(mod, ctx):
                    from lib import splineoracle as SO
                    ncells = 3
                    fm = getattr(ctx, 'float_mode', False)          # float replay: plain numpy floats
                    KK = (lambda v: float(v)) if fm else K
                    karr = (lambda vs: np.array([float(v) for v in vs])) if fm else numenv.karr
                    farr = (lambda vs: np.array([float(v) for v in vs])) if fm else arr
                    if cub:
                        kn = karr([Fr(-2), Fr(1), Fr(1), ncells])
                        vmin, vmax = Fr(-2), Fr(1)
                    else:
                        br = [Fr(-2), Fr(-1), Fr(1, 2), Fr(1)]
                        kn = karr(SO.math_knots(br, 3, False))
                        vmin, vmax = br[0], br[-1]
                    c = sym_vec('c', ncells + 3)
                    s = SReal(z3.Real('s'))
                    ctx.assume(z3.And(s.t >= -4, s.t <= 4))
                    r = SReal(z3.Real('r'))
                    ctx.assume(r.t > 0)
                    cn = [KK(getattr(Consts, k)) for k in ('CN0', 'kN0', 'deltaRN0', 'rp', 'CTi', 'kTi', 'deltaRTi')]
                    res = []
                    for bound in (0, 1, 2):
                        f = np.zeros(2) if fm else np.empty(2, dtype=object)
                        pts = farr([KK(Fr(-1, 2)) - s, KK(Fr(3, 4)) - s])
                        cc = np.array(c, dtype=float) if fm else c
                        mod.v_parallel_advection_eval_step(f, pts, float(r) if fm else r, KK(vmin), KK(vmax), kn, 3, cc, *cn, bound, cub)
                        res += list(f)
                        res += list(pts)            # the feet are an input: unchanged after the call
                    # flux_advection and get_lagrange_vals on a small surface
                    nq, nz = 3, 4
                    vals = np.zeros((nz, nq, 3)) if fm else np.empty((nz, nq, 3), dtype=object)
                    for idx in itertools.product(range(nz), range(nq), range(3)):
                        vals[idx] = SReal(z3.Real('v_%d_%d_%d' % idx))
                    co = sym_vec('l', 3)
                    f2 = np.zeros((nq, nz)) if fm else np.empty((nq, nz), dtype=object)
                    mod.flux_advection(nq, nz, f2, np.array(co, dtype=float) if fm else co, vals)
                    res += list(f2.ravel())
                    return res
                return run
            out.append(('advection kernels (%s splines)' % ('uniform cubic' if cub else 'general'), mk()))
        # get_lagrange_vals: stencil shifts of either sign up to more than two z periods away (i - s from -2 nz - 1 to 2 nz)
        for cub in (True, False):
            def mk3(cub=cub):
                def run(mod, ctx):
                    from lib import splineoracle as SO
                    fm = getattr(ctx, 'float_mode', False)
                    karr = (lambda vs: np.array([float(v) for v in vs])) if fm else numenv.karr
                    ncells = 7
                    if cub:
                        kn = karr([Fr(0), Fr(7), Fr(1), ncells])
                    else:
                        kn = karr(SO.math_knots([Fr(i) for i in range(ncells + 1)], 3, False))
                    c = sym_vec('c', ncells + 3)
                    if fm:
                        c = np.array(c, dtype=float)
                    nz, nq = 4, 2
                    shifts = np.array([-7, -5, -1, 0, 2, 6, 9, 10], dtype=np.int64)
                    qv = karr([Fr(1, 3), Fr(5, 2)])
                    ths = karr([Fr(k, 4) - 1 for k in range(len(shifts))])
                    res = []
                    for i0 in (1, 3):
                        vals = np.zeros((nz, nq, len(shifts))) if fm else np.empty((nz, nq, len(shifts)), dtype=object)
                        if not fm:
                            vals[...] = K(0)
                        mod.get_lagrange_vals(i0, shifts, vals, qv, ths, kn, 3, c, cub)
                        res += list(vals.ravel())
                    return res
                return run
            out.append(('stencil values along z (%s splines)' % ('uniform cubic' if cub else 'general'), mk3()))
        # poloidal steps (explicit and implicit) and get_lagrange_vals: concrete potential whose feet leave through both radial
        # boundaries, the 2-D spline of f symbolic, both boundary modes
        for cub in (True, False):
            def mk2(cub=cub):
                def run(mod, ctx):
                    from lib import splineoracle as SO
                    from checks import c12
                    fm = getattr(ctx, 'float_mode', False)          # float replay: plain numpy floats instead of exact proxies
                    KK = (lambda v: float(v)) if fm else K
                    karr = (lambda vs: np.array([float(v) for v in vs])) if fm else numenv.karr

                    def zeros(shape):
                        if fm:
                            return np.zeros(shape)
                        a = np.empty(shape, dtype=object)
                        a[...] = K(0)
                        return a
                    path = 'cu' if cub else 'nu'
                    nq, ncr, deg = 4, 2, 3
                    qb, rb = c12.spaces(path, nq, ncr, deg)
                    Tq, Tr = SO.math_knots(qb, deg, True), SO.math_knots(rb, deg, False)
                    if cub:
                        kq = karr([qb[0], qb[-1], qb[1] - qb[0], nq])
                        kr = karr([rb[0], rb[-1], rb[1] - rb[0], ncr])
                    else:
                        kq, kr = karr(Tq), karr(Tr)
                    qpts = SO.greville(Tq, deg, True, nq) if hasattr(SO, 'greville') else None
                    if qpts is None:
                        qpts = [sum(Tq[i + 1:i + deg + 1], Fr(0)) / deg for i in range(nq)]
                        qpts = [(q - qb[0]) % (qb[-1] - qb[0]) + qb[0] for q in qpts]
                    rpts = [sum(Tr[i + 1:i + deg + 1], Fr(0)) / deg for i in range(ncr + deg)]
                    Cphi = c12.potential_coeffs('wave', Fr(2), nq, deg, ncr, deg, Tr, rpts, seed=11)
                    cphi = zeros((nq + deg, ncr + deg))
                    for i in range(nq + deg):
                        for j in range(ncr + deg):
                            cphi[i, j] = KK(Cphi[i][j])
                    cpol = sym_mat('P', nq + deg, ncr + deg)
                    if fm:
                        cpol = np.array(cpol, dtype=float)
                    for i in range(deg):
                        cpol[nq + i, :] = cpol[i, :]
                    cn = [KK(getattr(Consts, k)) for k in ('CN0', 'kN0', 'deltaRN0', 'rp', 'CTi', 'kTi', 'deltaRTi')]
                    res = []
                    nr = len(rpts)
                    for dt, nul in ((Fr(2), False), (Fr(-2), False), (Fr(2), True)):
                        f = zeros((nq, nr))
                        work = [zeros((nq, nr)) for _ in range(8)]
                        mod.poloidal_advection_step_expl(f, KK(dt), KK(Fr(1, 2)), karr(rpts), karr(qpts), *work,
                                                         kq, kr, cphi, deg, deg, kq, kr, cpol, deg, deg, *cn, KK(Fr(3, 2)), cub, nul)
                        res += list(f.ravel())
                    f = zeros((nq, nr))
                    work = [zeros((nq, nr)) for _ in range(8)]
                    Cl = c12.potential_coeffs('wave_local', Fr(3), nq, deg, ncr, deg, Tr, rpts, seed=11)
                    cl = zeros((nq + deg, ncr + deg))
                    for i in range(nq + deg):
                        for j in range(ncr + deg):
                            cl[i, j] = KK(Cl[i][j])
                    mod.poloidal_advection_step_impl(f, KK(Fr(1, 2)), KK(Fr(1, 2)), karr(rpts), karr(qpts), *work,
                                                     kq, kr, cl, deg, deg, kq, kr, cpol, deg, deg, *cn, KK(Fr(3, 2)), KK(Fr(1, 20)), cub, False)
                    res += list(f.ravel())
                    return res
                return run
            out.append(('poloidal steps (%s splines)' % ('uniform cubic' if cub else 'general'), mk2()))

        def many_sweeps(mod, ctx):
            # float-only: the implicit iteration on a strong potential with a tight tolerance needs far more sweeps than any
            # exact-arithmetic run can afford; reference and copy are compared on real numpy arrays
            if not getattr(ctx, 'float_mode', False):
                return []
            from lib import splineoracle as SO
            from checks import c12
            nq, ncr, deg = 8, 6, 3
            qb, rb = c12.spaces('cu', nq, ncr, deg)
            kq = np.array([float(qb[0]), float(qb[-1]), float(qb[1] - qb[0]), nq])
            kr = np.array([float(rb[0]), float(rb[-1]), float(rb[1] - rb[0]), ncr])
            Tq, Tr = SO.math_knots(qb, deg, True), SO.math_knots(rb, deg, False)
            qpts = np.array([float(qb[0]) + k * float(qb[1] - qb[0]) for k in range(nq)])
            rpts = np.array([float(sum(Tr[i + 1:i + deg + 1], Fr(0)) / deg) for i in range(ncr + deg)])
            rng = np.random.RandomState(21)
            cphi = np.empty((nq + deg, ncr + deg))
            base = 3.5 * np.sin(np.linspace(0, 2 * np.pi, nq, endpoint=False))          # about 100-250 sweeps to reach 1e-13
            for i in range(nq + deg):
                cphi[i, :] = base[i % nq] * (1.0 + 0.3 * np.arange(ncr + deg))
            cpol = rng.rand(nq + deg, ncr + deg)
            cpol[nq:, :] = cpol[:deg, :]
            cn = [float(getattr(Consts, k)) for k in ('CN0', 'kN0', 'deltaRN0', 'rp', 'CTi', 'kTi', 'deltaRTi')]
            f = np.zeros((nq, len(rpts)))
            work = [np.zeros((nq, len(rpts))) for _ in range(8)]
            mod.poloidal_advection_step_impl(f, 0.5, 0.5, rpts, qpts, *work, kq, kr, cphi, deg, deg, kq, kr, cpol, deg, deg, *cn, 1.0, 1e-13, True, True)
            return list(f.ravel()) + list(work[6].ravel()) + list(work[7].ravel())
        out.append(('float: implicit poloidal step, strong potential, tolerance 1e-13', many_sweeps))
    return out


def work(item):
    fam, copy_rel = item
    res = H.worker_result()
    numenv.mods()
    refname, copies = FAMILIES[fam]
    ref = H.repo_import(refname)
    t0 = time.time()
    try:
        cp = load_copy(copy_rel)
    except Exception as e:
        res['obligations'] += 1
        res['violations'].append(('copies:load:%s' % copy_rel, 'source copy %s cannot be loaded: %s: %s' % (copy_rel, type(e).__name__, e), dict(kind='copy', copy=copy_rel)))
        return res
    is_model = copy_rel.startswith('pyccel-model:')
    real_rel = 'pyccel-build:' + fam if is_model else copy_rel          # what a counter-model is replayed on
    shown = ('the pyccel build of %s.py' % refname.replace('.', '/')) if is_model else copy_rel
    if is_model:
        res['model_notes'] = list(getattr(cp, '__pyccel_model_notes__', []))
    # same functions
    rf, cf = public_functions(ref), public_functions(cp)
    missing = sorted(set(rf) - set(cf))
    res['obligations'] += 1
    if missing:
        res['violations'].append(('copies:missing:%s' % copy_rel, 'source copy %s does not define %s' % (copy_rel, ', '.join(missing)),
                                  dict(kind='copy', copy=copy_rel, missing=missing)))
    else:
        res['discharged'] += 1
    # same call interface: number of parameters and default values (a call that leaves an optional argument out must mean the same)
    for fn in sorted(set(rf) & set(cf)):
        res['obligations'] += 1
        try:
            pr = [(q.kind, q.default) for q in inspect.signature(rf[fn]).parameters.values()]
            pc = [(q.kind, q.default) for q in inspect.signature(cf[fn]).parameters.values()]
        except (TypeError, ValueError):
            res['discharged'] += 1
            continue
        # every call the reference accepts must mean the same for the copy: same number of parameters, and where the reference
        # has a default value the copy has the same one (a default that only the copy offers changes no call of the reference)
        E = inspect.Parameter.empty
        bad = [i for i, (a, b) in enumerate(zip(pr, pc)) if a[0] != b[0] or (a[1] is not E and (b[1] is E or a[1] != b[1]))]
        if len(pr) != len(pc) or bad:
            names = list(inspect.signature(rf[fn]).parameters)
            diff = [names[i] for i in bad] or ['number of parameters %d / %d' % (len(pr), len(pc))]
            res['violations'].append(('copies:signature:%s:%s' % (copy_rel, fn), '%s: %s has other parameters / default values than the reference (%s)' % (shown, fn, ', '.join(diff)),
                                      dict(kind='copy', copy=copy_rel, function=fn, reference=[repr(x[1]) for x in pr], found=[repr(x[1]) for x in pc])))
        else:
            res['discharged'] += 1
    numenv.enable(extra_modules=[(ref, None)] if fam in ('init', 'poisson', 'adv') else [])
    if fam == 'adv':
        numenv.patch_module(H.repo_import('pygyro.initialisation.initialiser_funcs'))
    patch_copy(cp)
    for dep in list(_LOADED.values()):
        if dep is not cp:
            patch_copy(dep)
    symx.set_bv(None)
    for label, scen in scenarios(fam, ref):
        skip = [n for n in missing]
        st = {}

        def body(ctx):
            a = scen(ref, ctx)
            try:
                b = scen(cp, ctx)
            except AttributeError as e:
                if skip:
                    st['skipped'] = str(e)
                    return a, None
                raise
            return a, b
        npaths = 0
        for ctx, (kind, val) in symx.explore(body, timeout_ms=30000, index_cap=64, maxpaths=4000):
            npaths += 1
            if kind == 'abort':
                if val.inconclusive:
                    pin = {}
                    if ctx.check() == 'sat':
                        pm = ctx.model()
                        pin = {str(d): str(pm[d]) for d in pm.decls() if len(str(d)) <= 3}
                    prob = float_disagreement(fam, real_rel, label, pin) or float_disagreement(fam, real_rel, label, {})
                    if prob:
                        res['obligations'] += 1
                        res['violations'].append(('copies:%s' % copy_rel, '%s and its reference disagree in scenario "%s": %s (symbolic run stopped: %s; witness from the float run)' % (
                            shown, label, prob, val.why), dict(kind='copy', copy=copy_rel, scenario=label, concrete=prob)))
                    else:
                        res['inconclusive'].append('abort %s (%s, %s)' % (val.why, copy_rel, label))
                continue
            res['obligations'] += 1
            if kind == 'exc':
                # an exception on the symbolic run (the object-array model is not numpy for every operation a copy may use, e.g.
                # complex .real views): decided by running reference and copy on real numpy arrays
                prob = float_disagreement(fam, real_rel, label, {})
                if prob:
                    res['violations'].append(('copies:%s' % copy_rel, '%s and its reference disagree in scenario "%s": %s (symbolic run raised %s: %s)' % (
                        shown, label, prob, type(val).__name__, str(val)[:80]), dict(kind='copy', copy=copy_rel, scenario=label, concrete=prob)))
                else:
                    res['inconclusive'].append('exception %s: %s (%s, %s)' % (type(val).__name__, str(val)[:150], copy_rel, label))
                continue
            a, b = val
            if b is None:
                res['obligations'] -= 1          # functions missing from the copy: already reported above
                continue
            if len(a) != len(b):
                res['violations'].append(('copies:%s' % copy_rel, '%s: different number of outputs' % label, dict(kind='copy', copy=copy_rel, scenario=label)))
                continue
            bad = []
            for u, w in zip(a, b):
                if isinstance(u, symx.SPoison) or isinstance(w, symx.SPoison):
                    continue
                tu, tw = symx._pair(u if isinstance(u, symx.Sym) else K(u) if not isinstance(u, int) else u, w if isinstance(w, symx.Sym) else K(w) if not isinstance(w, int) else w)
                bad.append(tu != tw)
            cache = {}
            r = ctx.check(z3.Or([symx.abstract_nonlinear(z3.simplify(x), cache) for x in bad])) if bad else 'unsat'
            if r != 'unsat':
                s2 = symx.nra_solver(list(ctx.solver.assertions()) + [z3.Or(bad)], 30000)
                r = str(s2.check())
                mdl = s2.model() if r == 'sat' else None
            if r == 'unsat':
                res['discharged'] += 1
                res['nontrivial'].append('%s|%s|%s' % (copy_rel, label, ''.join('T' if d['choice'] else 'F' for d in ctx.decisions[-10:])))
            elif r == 'sat':
                which = [i for i, x in enumerate(bad) if z3.is_true(mdl.eval(x, model_completion=True))][:5]
                inputs = {str(d): str(mdl[d]) for d in mdl.decls() if len(str(d)) <= 3}
                prob = float_disagreement(fam, real_rel, label, inputs)
                rep = dict(kind='copy', copy=copy_rel, scenario=label, outputs=which, inputs=inputs, concrete=prob)
                if prob:
                    res['violations'].append(('copies:%s' % copy_rel, '%s and its reference disagree in scenario "%s" (output positions %s): %s' % (shown, label, which, prob), rep))
                else:
                    res['inconclusive'].append('symbolic disagreement not reproduced in floats: %r' % rep)
            else:
                # no verdict (uninterpreted exp/tanh at different arguments inside non-linear terms): a concrete float run of both
                # functions may still exhibit the disagreement, which is then a witness in its own right
                pin = {}
                if ctx.check() == 'sat':
                    pm = ctx.model()
                    pin = {str(d): str(pm[d]) for d in pm.decls() if len(str(d)) <= 3}       # a point of this path (x, y, s, r)
                prob = float_disagreement(fam, real_rel, label, pin) or float_disagreement(fam, real_rel, label, {})
                if prob:
                    res['violations'].append(('copies:%s' % copy_rel, '%s and its reference disagree in scenario "%s": %s (solver verdict unknown; witness from the float run)' % (shown, label, prob),
                                              dict(kind='copy', copy=copy_rel, scenario=label, concrete=prob)))
                else:
                    res['inconclusive'].append('unknown equivalence query (%s, %s)' % (copy_rel, label))
        if len(res['samples']) < 1:
            res['samples'].append(dict(copy=copy_rel, scenario=label, paths=npaths))
        if label.startswith('float:'):
            res['obligations'] += 1
            prob = float_disagreement(fam, real_rel, label, {})
            if prob:
                res['violations'].append(('copies:%s' % copy_rel, '%s and its reference disagree in scenario "%s": %s' % (shown, label, prob),
                                          dict(kind='copy', copy=copy_rel, scenario=label, concrete=prob)))
            else:
                res['discharged'] += 1
    numenv.disable()
    res['stats'] = symx.GLOBAL.as_dict()
    symx.GLOBAL.__init__()
    res['wall'] = round(time.time() - t0, 2)
    res['programs'] = len(rf)
    return res


FLOAT_RUN_CPU_S = 120          # a float scenario takes well under a second


def float_disagreement(fam, copy_rel, label, inputs):
    """replay on floats: run the same scenario with the model's values for x, y, s, r (coefficients random) on the pristine functions"""
    numenv.disable()
    try:
        refname, _ = FAMILIES[fam]
        ref = H.repo_import(refname)
        cp = load_copy(copy_rel)
        scen = dict(scenarios(fam, ref))[label]

        class FakeCtx:
            float_mode = True

            def assume(self, c):
                pass
        import random
        rnd = random.Random(1)
        vals = {}

        class FloatZ3:
            pass
        # run the scenario with floats by temporarily replacing SReal/z3.Real construction
        orig_sreal, orig_real = globals()['SReal'], z3.Real

        def fake_sreal(t):
            return t
        def fake_real(name):
            if name not in vals:
                if name in inputs:
                    try:
                        vals[name] = float(Fr(inputs[name].replace('?', '')))
                    except Exception:
                        vals[name] = rnd.uniform(0.1, 0.9)
                else:
                    vals[name] = rnd.uniform(-1, 1)
            return FloatTerm(vals[name])

        class FloatTerm(float):
            @property
            def t(self):
                return self
            def __ge__(self, o): return True
            def __le__(self, o): return True
            def __gt__(self, o): return True
        globals()['SReal'] = fake_sreal
        z3.Real = fake_real
        # every module involved computes with the real elementary functions during the float run, whatever was injected before
        import math
        swapped = []
        mods_ = [ref, cp] + list(_LOADED.values()) + [m_ for n_, m_ in list(sys.modules.items()) if n_.startswith('pythran_') or n_.startswith('pygyro.initialisation.initialiser_funcs')]
        for m_ in mods_:
            for nm in ('exp', 'tanh', 'sqrt', 'cos', 'sin', 'log'):
                cur = vars(m_).get(nm)
                if cur is not None and cur is not getattr(math, nm) and cur is not getattr(np, nm):
                    swapped.append((m_, nm, cur))
                    setattr(m_, nm, getattr(np, nm))
        try:
            try:
                with H.cpu_limit(FLOAT_RUN_CPU_S):
                    a = scen(ref, FakeCtx())
            except H.CpuTimeout:
                return None          # the reference itself does not come back: nothing to compare with
            try:
                with H.cpu_limit(FLOAT_RUN_CPU_S):
                    b = scen(cp, FakeCtx())
            except H.CpuTimeout:
                return 'the copy does not return within %d s of CPU time on inputs on which the reference returns' % FLOAT_RUN_CPU_S
        finally:
            globals()['SReal'] = orig_sreal
            z3.Real = orig_real
            for m_, nm, cur in swapped:
                setattr(m_, nm, cur)
        worst = 0.0
        for u, w in zip(a, b):
            try:
                worst = max(worst, abs(float(u) - float(w)))
            except Exception:
                pass
        if worst > 1e-9:
            return 'float outputs differ by %.3g' % worst
        return None
    except (symx.Abort, BuildUnavailable) as e:
        return None
    except Exception as e:
        if copy_rel.startswith('pyccel-build:'):
            return None          # the extension functions do not raise; an exception here comes from passing the scenario's arguments
        return 'copy raises %s: %s' % (type(e).__name__, str(e)[:120])
    finally:
        numenv.enable()


def main():
    run = H.Run(PID, 'translation_validation')
    if run.args.replay:
        print(json.dumps(json.load(open(run.args.replay))['replay'], indent=1))
        sys.exit(0)
    TIER[0] = run.tier
    items = []
    for fam, (refname, copies) in FAMILIES.items():
        for c in copies:
            items.append((fam, c))
        items.append((fam, 'pyccel-model:' + fam))
    programs = 0
    model_notes = []
    for r in H.pmap(work, items, run.args.jobs):
        programs += r.get('programs', 0)
        model_notes += r.get('model_notes', [])
        run.merge(r)
    # "the documented build succeeds on the current tree": scratch pyccel build of the five kernel modules (flags and order of the
    # Makefiles), after a control build that shows the toolchain works here
    b = PM.build_tree(H.REPO)
    br = H.worker_result()
    if b['status'] == 'ok':
        br['obligations'] += 1
        br['discharged'] += 1
        br['nontrivial'].append('build|ok')
    elif b['status'] == 'failed':
        br['obligations'] += 1
        br['violations'].append(('build:%s' % b['failed'], 'the pyccel build (documented flags) of pygyro/%s fails on the current tree: %s' % (
            b['failed'], ' '.join(b['log'].split())[-400:]), dict(kind='build', module=b['failed'], log=b['log'][-1500:])))
    run.merge(br)
    run.sections['pyccel_build'] = dict(status=b['status'], seconds=b.get('seconds'), modules=sorted(b['modules']), failed=b.get('failed'),
                                        note=None if b['status'] != 'no-toolchain' else 'pyccel/gfortran unusable here (%s): build clause and replays of the pyccel model not run' % b['log'][:200])
    run.sections['pyccel_model'] = dict(divergences=['D1 assignment to an array argument writes through to the caller', 'D2 loop variable after a completed loop is one step past the last value', 'D3 negative non-literal index does not wrap'],
                                        sites_in_current_source=model_notes)
    numenv.mods()
    run.functions = [dict(function='every public function of ' + ref, copies=copies + ['pyccel-model (source transform) / pyccel-build (replay)']) for ref, copies in FAMILIES.values()]
    run.stubs = ['numba.njit / numba.pycc.CC: identity decorators', 'numpy.empty/empty_like -> object arrays, int -> truncation on proxies (as in C07)', 'exp/tanh/sqrt/cos uninterpreted']
    run.bounds = dict(copies=len(items), scenarios='general splines degrees 1,3,4; uniform cubic 1 and 3 cells (dx != dy); all initialisation functions; density kernels; '
                      'v-parallel evaluation step (three boundary modes, symbolic shift), flux_advection')
    run.outside = ['the main clause of C19 beyond the modelled divergences: the generated Fortran itself is not encoded (no Fortran/LLVM-IR to SMT engine here); what is decided is that the kernels do not depend on the three modelled Python-only behaviours (D1, D2, D3), '
                   'that the documented build succeeds, and (concretely, two float scenarios) that build and source agree on the many-sweeps implicit step and on the uniform-cubic kernels at points k*dx',
                   'numba / pythran compilation itself (the copies are executed as Python)', 'get_lagrange_vals of the copies (not exercised); poloidal steps only on the listed potentials',
                   'floating-point reassociation']
    run.assumptions = ['exact reals for doubles']
    ev_extra = dict(programs=programs, disagreements_checked=len(run.violations) + len(run.known_hit))
    run.sections['translation_validation'] = ev_extra
    run.extra_coverage = ev_extra
    run.finish(
        explanation='Reference kernel and source copy executed side by side on the same symbolic inputs; per path z3 decides equality of all '
                    'outputs and in-place results; missing functions are reported. Only the "source copies" clause of C19 is covered.',
        rule='case = (source copy, scenario) x feasible path')


if __name__ == '__main__':
    main()
