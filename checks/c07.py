"""C07 -- spline evaluation equals the mathematical B-spline on every entry point.

The real evaluation kernels (spline_eval_funcs, cubic_uniform_spline_eval_funcs) and the dispatching
classes (make_knots, BSplines, Spline1D, Spline2D) run on exact-real proxies: evaluation point(s) and all
coefficients are z3 Reals, knots are exact rationals.  The span search forks on x against the knots, so a
path is a cell / knot / end-point case; on each path z3 decides the polynomial identity
"code == Cox-de Boor oracle" (oracle: lib/splineoracle.py, written against the mathematical knot vector).
"""
import itertools
import json
import sys
import time
from fractions import Fraction as Fr

import numpy as np
import z3

from lib import symx, numenv
from lib import harness as H
from lib import splineoracle as SO
from lib.symx import K, SReal, zt, toreal, ite

PID = 'C07'
EPS = 2.0 ** -52


# ----------------------------------------------------------------------------- knot families
def breaks_family(name, ncells):
    n = ncells
    if name == 'uniform':
        return [Fr(-1) + Fr(i, 2) for i in range(n + 1)]
    if name == 'uniform3':
        return [Fr(2) + Fr(i, 3) for i in range(n + 1)]      # a second uniform spacing (dx != dy in 2-D uniform-cubic spaces)
    if name == 'graded':
        return [Fr(i * i, n) + Fr(i, 4) for i in range(n + 1)]
    if name == 'alternating':
        out = [Fr(0)]
        for i in range(n):
            out.append(out[-1] + (Fr(1) if i % 2 == 0 else Fr(1, 3)))
        return out
    if name == 'geometric':
        out = [Fr(2)]
        for i in range(n):
            out.append(out[-1] + Fr(1, 4 ** i))
        return out
    if name == 'decreasing':
        out = [Fr(-5, 2)]
        for i in range(n):
            out.append(out[-1] + Fr(n - i, n) + Fr(1, 6))          # first cell the widest
        return out
    if name == 'irregular':
        steps = [Fr(3, 7), Fr(5, 3), Fr(1, 9), Fr(2), Fr(4, 5), Fr(1, 2), Fr(7, 4), Fr(1, 11)]
        out = [Fr(-3, 2)]
        for i in range(n):
            out.append(out[-1] + steps[i % len(steps)])
        return out
    raise KeyError(name)


def oracle_knots(breaks, degree, periodic, path):
    """the knot vector the path really uses: the uniform-cubic fast path on a clamped space evaluates the
    *cardinal* (uniformly extended) cubic B-splines, not the clamped ones"""
    if path == 'cu' and not periodic:
        dx = breaks[1] - breaks[0]
        return [breaks[0] + (i - 3) * dx for i in range(len(breaks) + 6)]
    return SO.math_knots(breaks, degree, periodic)


def build_space(m, degree, periodic, breaks, uniform_flag):
    """real make_knots + BSplines on exact proxies"""
    knots = m['spl'].make_knots(numenv.karr(breaks), degree, periodic)
    basis = m['spl'].BSplines(knots, degree, periodic, uniform_flag)
    return knots, basis


def oracle_term(T, p, coeffs, x, der):
    """z3-level oracle: If-chain over the cells of the domain, right-continuous, last cell closed"""
    lo, hi = p, len(T) - p - 2
    val = None
    for cell in range(hi, lo - 1, -1):
        B = SO.cell_basis(T, p, cell, x, der)
        acc = K(0)
        for c, b in zip(coeffs, B):
            if not (isinstance(b, int) and b == 0):
                acc = acc + c * b
        val = acc if val is None else ite(x < T[cell + 1], acc, val)
    return val


def path_cell(ctx, T, p, x):
    """the knot interval [T[k], T[k+1]) (last one closed) that the path condition confines x to, or None.
    x may be a concrete proxy (then the cell is computed directly)."""
    lo, hi = p, len(T) - p - 2
    if symx.is_concrete(x):
        return SO.find_cell_fraction(T, p, symx.fval(x))
    xt = zt(x)
    for k in range(lo, hi + 1):
        inside = z3.And(xt >= z3.RealVal(T[k]), (xt <= z3.RealVal(T[k + 1])) if k == hi else (xt < z3.RealVal(T[k + 1])))
        if ctx.check(z3.Not(inside)) == 'unsat':
            return k
    return None


def oracle_on_path(ctx, T, p, coeffs, x, der):
    k = path_cell(ctx, T, p, x)
    if k is None:
        return oracle_term(T, p, coeffs, x, der)
    B = SO.cell_basis(T, p, k, x, der)
    acc = K(0)
    for c, b in zip(coeffs, B):
        if not (isinstance(b, int) and b == 0):
            acc = acc + c * b
    return acc


def sym_coeffs(basis, tag='c'):
    n = basis.ncells + basis.degree
    cs = [SReal(z3.Real('%s%d' % (tag, j))) for j in range(n)]
    if basis.periodic:
        for i in range(basis.degree):
            cs[basis.ncells + i] = cs[i]
    return cs


def float_space(m, degree, periodic, breaks, uniform_flag):
    kn = m['spl'].make_knots(np.array([float(b) for b in breaks]), degree, periodic)
    return m['spl'].BSplines(kn, degree, periodic, uniform_flag)


DECIDE_MS = [int(__import__('os').environ.get('VERIF_C07_DECIDE_MS', '15000'))]      # per-query budget (quick); main() raises it in the thorough tier


def decide(ctx, cond, res, what):
    """verdict of `exists: cond` under the path condition: nlsat pipeline first (eliminates the k = m facts of
    concretised floors, then univariate/bivariate polynomial reasoning), z3's default combination as fall-back"""
    s = symx.nra_solver(list(ctx.solver.assertions()) + [cond], DECIDE_MS[0])
    t = time.time()
    r = str(s.check())
    for st_ in (symx.GLOBAL, ctx.stats):
        st_.queries += 1
        st_.solver_s += time.time() - t
        setattr(st_, r, getattr(st_, r) + 1)
    if r == 'sat':
        return r, s.model()
    if r == 'unsat':
        return r, None
    ctx.solver.set('timeout', max(ctx.timeout_ms, DECIDE_MS[0]))
    r = ctx.check(cond)
    ctx.solver.set('timeout', ctx.timeout_ms)
    return r, (ctx.model() if r == 'sat' else None)


def graded_witness(ctx, diff, cvars, res):
    """search a model with |diff| >= g, coefficients normalised to [-1,1]; g = 1e-6, 1e-9, 1e-12"""
    box = [z3.And(c >= -1, c <= 1) for c in cvars]
    for g in (Fr(1, 10 ** 6), Fr(1, 10 ** 9), Fr(1, 10 ** 12)):
        cond = z3.And(*(box + [z3.Or(diff >= z3.RealVal(g), diff <= -z3.RealVal(g))]))
        r, m = decide(ctx, cond, res, 'graded')
        if r == 'sat':
            return g, m
    return None, None


# ----------------------------------------------------------------------------- 1-D work item
def work_1d(item):
    degree, periodic, family, ncells, path, canary = item
    res = H.worker_result()
    m = numenv.mods()
    t0 = time.time()
    if canary:
        apply_canary(m, canary)
    numenv.enable()
    symx.set_bv(None)
    breaks = breaks_family(family, ncells)
    uniform_flag = (path == 'cu')
    T = oracle_knots(breaks, degree, periodic, path)
    a, b = breaks[0], breaks[-1]
    st = {}

    def body(ctx):
        x = z3.Real('x')
        ctx.assume(z3.And(x >= z3.RealVal(a), x <= z3.RealVal(b)))
        knots, basis = build_space(m, degree, periodic, breaks, uniform_flag)
        assert basis.cubic_uniform == uniform_flag
        sp = m['spl'].Spline1D(basis)
        cs = sym_coeffs(basis)
        for j, c in enumerate(cs):
            sp.coeffs[j] = c
        st.update(x=x, cs=cs, basis=basis)
        xs = SReal(x)
        out = {}
        for der in (0, 1):
            out[('scalar', der)] = sp.eval(xs, der)
        # basis functions through the general kernels (span, non-negativity, partition of unity)
        if not uniform_flag:
            span = m['sef'].nu_find_span(knots, degree, xs)
            vals = np.empty(degree + 1, dtype=object)
            m['sef'].nu_basis_funs(knots, degree, xs, span, vals)
            ders = np.empty(degree + 1, dtype=object)
            m['sef'].nu_basis_funs_1st_der(knots, degree, xs, span, ders)
            out['span'] = (span, len(knots))
        else:
            kn = basis.knots
            span, off = m['cuf'].cu_find_span(kn[0], kn[1], kn[2], xs, int(kn[3]))
            vals = np.empty(4, dtype=object)
            m['cuf'].cu_basis_funs(span, off, vals)
            ders = np.empty(4, dtype=object)
            m['cuf'].cu_basis_funs_1st_der(span, off, kn[2], ders)
            out['span'] = (span, ncells + 7)
        out['vals'], out['ders'] = list(vals), list(ders)
        return out

    def confirm(kind, der, model, what):
        """replay on the real float code"""
        xv = symx.model_value(model, SReal(st['x']))
        n = ncells + degree
        cv = []
        for j in range(n):
            v = model.eval(zt(st['cs'][j]), model_completion=True)
            cv.append(Fr(v.numerator_as_long(), v.denominator_as_long()) if z3.is_rational_value(v) else Fr(0))
        numenv.disable()
        try:
            fb = float_space(m, degree, periodic, breaks, uniform_flag)
            sp = m['spl'].Spline1D(fb)
            sp.coeffs[:] = [float(c) for c in cv]
            got = float(sp.eval(float(xv), der))
        except Exception as e:
            got = e
        finally:
            numenv.enable()
        exact = SO.eval_fraction(T, degree, cv, Fr(xv), der)
        scale = max([1.0] + [abs(float(c)) for c in cv]) * (1.0 if der == 0 else max(1.0, 1.0 / float(min(breaks[i + 1] - breaks[i] for i in range(ncells)))) * degree)
        rep = dict(kind='1d', degree=degree, periodic=periodic, family=family, ncells=ncells, path=path, der=der, x=str(xv),
                   coeffs=[str(c) for c in cv], float_result=str(got), exact=str(exact), symbolic=what, canary=bool(canary))
        if isinstance(got, Exception) or abs(got - float(exact)) > 1024 * EPS * scale:
            res['violations'].append(('eval1d:%s' % path, '%s: degree %d %s %s cells=%d der=%d x=%s: code %s vs exact %s' % (
                what, degree, 'periodic' if periodic else 'clamped', family, ncells, der, float(xv), got, float(exact)), rep))
            return True
        res['sub_rounding'] = res.get('sub_rounding', 0) + 1
        return False

    npaths = 0
    for ctx, (kind, val) in symx.explore(body, timeout_ms=20000, index_cap=64):
        npaths += 1
        if kind == 'abort':
            if val.inconclusive:
                res['inconclusive'].append('abort %s in %r' % (val.why, item[:5]))
            continue
        if kind == 'exc':
            res['obligations'] += 1
            r = ctx.check()
            if r == 'sat':
                if not confirm('scalar', 0, ctx.model(), 'exception %s: %s' % (type(val).__name__, str(val)[:100])):
                    res['inconclusive'].append('exception %r on symbolic path does not reproduce in floats: %r' % (val, item[:5]))
            continue
        x = SReal(st['x'])
        cs = st['cs']
        cvars = [zt(c) for c in cs[:ncells if periodic else ncells + degree]]
        for der in (0, 1):
            orc = oracle_on_path(ctx, T, degree, cs, x, der)
            got = val[('scalar', der)]
            diff = toreal(zt(got)) - toreal(zt(orc))
            res['obligations'] += 1
            r, mdl = decide(ctx, diff != 0, res, 'value')
            if r == 'unsat':
                res['discharged'] += 1
            elif r == 'sat':
                g, mdl2 = graded_witness(ctx, diff, cvars, res)
                if g is None:
                    res['sub_rounding'] = res.get('sub_rounding', 0) + 1
                    res['discharged'] += 1      # deviation exists only below 1e-12 relative: below double rounding
                    res.setdefault('notes', []).append('sub-rounding deviation der=%d %r' % (der, item[:5]))
                elif not confirm('scalar', der, mdl2, 'value differs from Cox-de Boor oracle by >= %s' % float(g)):
                    res['inconclusive'].append('model (grade %s) does not reproduce in floats %r' % (float(g), item[:5]))
            else:
                res['inconclusive'].append('unknown value query %r der=%d' % (item[:5], der))
        # basis facts
        vals, ders = val['vals'], val['ders']
        facts = [('basis negative', z3.Or([toreal(zt(v)) < 0 for v in vals])),
                 ('basis does not sum to one', z3.Sum([toreal(zt(v)) for v in vals]) != 1),
                 ('basis derivatives do not sum to zero', z3.Sum([toreal(zt(v)) for v in ders]) != 0)]
        span, nk = val['span']
        if not uniform_flag:
            facts.append(('span out of range', z3.Or(zt(span) < degree, zt(span) > nk - degree - 2)))
        else:
            facts.append(('span out of range', z3.Or(zt(span) < 3, zt(span) > ncells + 2)))
        for name, cond in facts:
            res['obligations'] += 1
            r, mdl = decide(ctx, cond, res, name)
            if r == 'unsat':
                res['discharged'] += 1
            elif r == 'sat':
                xv = symx.model_value(mdl, x)
                rep = dict(kind='basis', fact=name, degree=degree, periodic=periodic, family=family, ncells=ncells, path=path, x=str(xv), canary=bool(canary))
                if confirm_basis(m, degree, periodic, breaks, uniform_flag, xv, name):
                    res['violations'].append(('basis:%s' % path, '%s at x=%s (degree %d, %s, %d cells)' % (name, float(xv), degree, family, ncells), rep))
                else:
                    res['sub_rounding'] = res.get('sub_rounding', 0) + 1
                    res['inconclusive'].append('basis fact %s sat but not reproducible in floats %r' % (name, item[:5]))
            else:
                res['inconclusive'].append('unknown basis query %s %r' % (name, item[:5]))
        if ctx.check() == 'sat':
            xv = symx.model_value(ctx.model(), x)
            res['nontrivial'].append('1d|%r|%d|%s' % (item[:5], npaths, ''.join('T' if d['choice'] else 'F' for d in ctx.decisions)))
            if len(res['samples']) < 1:
                res['samples'].append(dict(config=[degree, periodic, family, ncells, path], path_example_x=str(xv), decisions=len(ctx.decisions)))
        else:
            res['inconclusive'].append('vacuous path %r' % (item[:5],))
    # periodic closure and entry points are checked on concrete-x paths (linear in the coefficients)
    if periodic:
        periodic_closure(m, degree, breaks, uniform_flag, ncells, res)
    vector_entry_points(m, degree, periodic, breaks, uniform_flag, ncells, T, res, item)
    numenv.disable()
    if canary:
        undo_canary(m)
    res['stats'] = symx.GLOBAL.as_dict()
    symx.GLOBAL.__init__()
    res['paths'] = npaths
    res['wall'] = round(time.time() - t0, 2)
    res['canary'] = canary[0] if canary else None
    return res


def confirm_basis(m, degree, periodic, breaks, uniform_flag, xv, name):
    numenv.disable()
    try:
        fb = float_space(m, degree, periodic, breaks, uniform_flag)
        n = fb.nbasis
        vals = [float(fb[i].eval(float(xv))) for i in range(n)]
        ders = [float(fb[i].eval(float(xv), 1)) for i in range(n)]
    except Exception:
        return True
    finally:
        numenv.enable()
    tol = 1024 * EPS * 10 * degree
    if name == 'basis negative':
        return min(vals) < -tol
    if name == 'basis does not sum to one':
        return abs(sum(vals) - 1) > tol
    if name == 'basis derivatives do not sum to zero':
        h = float(min(breaks[i + 1] - breaks[i] for i in range(len(breaks) - 1)))
        return abs(sum(ders)) > tol / h
    return True


def periodic_closure(m, degree, breaks, uniform_flag, ncells, res):
    """S(a) == S(b) and S'(a) == S'(b) for all coefficient vectors (linear query)"""
    def body(ctx):
        knots, basis = build_space(m, degree, True, breaks, uniform_flag)
        sp = m['spl'].Spline1D(basis)
        cs = sym_coeffs(basis)
        for j, c in enumerate(cs):
            sp.coeffs[j] = c
        a, b = K(breaks[0]), K(breaks[-1])
        return [(sp.eval(a, d), sp.eval(b, d)) for d in ((0, 1) if degree >= 2 else (0,))]   # degree 1 is only C^0
    for ctx, (kind, val) in symx.explore(body, timeout_ms=20000):
        if kind != 'ok':
            res['inconclusive'].append('periodic closure: %s %r' % (kind, val))
            continue
        for d, (va, vb) in enumerate(val):
            res['obligations'] += 1
            r = ctx.check(toreal(zt(va)) != toreal(zt(vb)))
            if r == 'unsat':
                res['discharged'] += 1
            elif r == 'sat':
                res['violations'].append(('periodic_closure', 'periodic spline has different %s at the two ends (degree %d, %d cells)' % (
                    'value' if d == 0 else 'slope', degree, ncells), dict(kind='closure', degree=degree, ncells=ncells, der=d)))
            else:
                res['inconclusive'].append('unknown periodic closure')


def tensor_pairs(ders):
    """derivative orders used for the two tensor-grid entry points: (allocating, in place); asymmetric pairs where the item
    has them (a swap of the two orders is invisible on (0,0) and (1,1)), and not the same one for both"""
    asym = [d for d in ders if d[0] != d[1]]
    if not asym:
        return ders[0], ders[-1]
    return asym[-1], asym[0]


def vector_entry_points(m, degree, periodic, breaks, uniform_flag, ncells, T, res, item):
    """Spline1D.eval(array), eval_vector(in place) and BSplines[i] agree with the oracle at concrete points
    (all break points, end points, cell mid points) for all coefficient vectors (linear queries)"""
    pts = []
    for i in range(ncells):
        pts += [breaks[i], (breaks[i] + breaks[i + 1]) / 2, breaks[i] + (breaks[i + 1] - breaks[i]) * Fr(1, 7)]
    pts.append(breaks[-1])
    shuffle = list(range(len(pts) - 1, -1, -2)) + list(range(len(pts) - 2, -1, -2))          # last, third last, ..., then the others descending

    def body(ctx):
        knots, basis = build_space(m, degree, periodic, breaks, uniform_flag)
        sp = m['spl'].Spline1D(basis)
        cs = sym_coeffs(basis)
        for j, c in enumerate(cs):
            sp.coeffs[j] = c
        X = numenv.karr(pts)
        XS = numenv.karr([pts[k] for k in shuffle])          # the same points in a non-monotonic order
        out = {}
        for der in (0, 1):
            out[('array', der)] = list(sp.eval(X, der))
            y = np.empty(len(pts), dtype=object)
            ys = np.empty(len(pts), dtype=object)
            for k_ in range(len(pts)):          # the output buffers hold arbitrary values on entry
                y[k_] = SReal(z3.Real('g%d' % (k_ % 2))) if k_ % 3 else K(Fr(7 + k_, 3))
                ys[k_] = y[k_]
            sp.eval_vector(X, y, der)
            out[('inplace', der)] = list(y)
            sp.eval_vector(XS, ys, der)
            out[('inplace_shuffled', der)] = list(ys)
        bas = []
        for i in range(basis.nbasis):
            bas.append([basis[i].eval(K(p)) for p in pts])
        out['basis'] = bas
        return cs, out
    for ctx, (kind, val) in symx.explore(body, timeout_ms=20000):
        if kind != 'ok':
            res['inconclusive'].append('vector entry points: %s %r %r' % (kind, val, item[:5]))
            continue
        cs, out = val
        bad = []
        for der in (0, 1):
            for k, p in enumerate(pts):
                orc = SO.eval_fraction(T, degree, cs, p, der)
                for ep in ('array', 'inplace'):
                    bad.append((ep, der, p, toreal(zt(out[(ep, der)][k])) != toreal(zt(orc))))
                ks = shuffle.index(k)
                bad.append(('inplace_shuffled', der, p, toreal(zt(out[('inplace_shuffled', der)][ks])) != toreal(zt(orc))))
        n = ncells if periodic else ncells + degree
        for k, p in enumerate(pts):
            cell = SO.find_cell_fraction(T, degree, p)
            B = SO.cell_basis(T, degree, cell, p, 0)
            for i in range(n):
                e = B[i] + (B[i + ncells] if periodic and i < degree else 0)
                g = out['basis'][i][k]
                if symx.fval(g) != Fr(e):
                    bad.append(('BSplines[i]', 0, p, z3.BoolVal(True)))
        res['obligations'] += 1
        r = ctx.check(z3.Or([b[3] for b in bad]))
        if r == 'unsat':
            res['discharged'] += 1
        elif r == 'sat':
            mdl = ctx.model()
            which = [b[:3] for b in bad if z3.is_true(mdl.eval(b[3], model_completion=True))][:3]
            # replay on the float code: the model's coefficients, the same points in the same orders
            prob = None
            numenv.disable()
            try:
                fb = float_space(m, degree, periodic, breaks, uniform_flag)
                fs = m['spl'].Spline1D(fb)
                cv = [float(Fr(symx.model_value(mdl, c))) for c in cs]
                fs.coeffs[:] = cv
                Xf = np.array([float(p) for p in pts])
                for der in (0, 1):
                    want = np.array([float(SO.eval_fraction(T, degree, [Fr(c).limit_denominator(10 ** 9) for c in cv], p, der)) for p in pts])
                    scale = max(1.0, float(np.max(np.abs(want))))
                    for name, order in (('array', list(range(len(pts)))), ('inplace', list(range(len(pts)))), ('inplace_shuffled', shuffle)):
                        xo = Xf[order]
                        if name == 'array':
                            got = np.array(fs.eval(xo, der), dtype=float)
                        else:
                            gv = [float(Fr(symx.model_value(mdl, SReal(z3.Real('g%d' % q_))))) for q_ in (0, 1)]
                            got = np.array([gv[k_ % 2] if k_ % 3 else (7 + k_) / 3.0 for k_ in range(len(pts))])      # the entry values of the exact run
                            fs.eval_vector(xo, got, der)
                        dev = float(np.max(np.abs(got - want[order])))
                        if dev > 1e-7 * scale and prob is None:
                            prob = '%s entry point, derivative %d: float result differs from the B-spline by %.3g' % (name, der, dev)
            except Exception as e:
                prob = 'exception %s: %s' % (type(e).__name__, e)
            finally:
                numenv.enable()
            if prob:
                res['violations'].append(('entrypoint', 'entry point %s disagrees with oracle (degree %d %s cells %d): %s' % (which, degree, item[2], ncells, prob),
                                          dict(kind='entry', which=str(which), item=[str(v) for v in item[:5]], concrete=prob)))
            else:
                res['inconclusive'].append('entry-point model does not reproduce in floats: %s %r' % (which, item[:5]))
        else:
            res['inconclusive'].append('unknown entry-point query')


# ----------------------------------------------------------------------------- symbolic break points (thorough)
def work_symknots(item):
    """kernels called directly (make_knots + nu_* functions) with *symbolic break points*: all of them for degree <= 2,
    one interior break point (the others from a rational family) above"""
    degree, periodic, ncells, which, family = item
    res = H.worker_result()
    m = numenv.mods()
    numenv.enable()
    symx.set_bv(None)
    base = breaks_family(family, ncells)
    st = {}

    def body(ctx):
        bs = []
        for i in range(ncells + 1):
            if which == 'all' or which == i:
                v = z3.Real('b%d' % i)
                bs.append(SReal(v))
            else:
                bs.append(K(base[i]))
        for i in range(ncells):
            ctx.assume(toreal(zt(bs[i])) < toreal(zt(bs[i + 1])))
        arr = np.empty(ncells + 1, dtype=object)
        for i, b in enumerate(bs):
            arr[i] = b
        knots = m['spl'].make_knots(arr, degree, periodic)
        x = SReal(z3.Real('x'))
        ctx.assume(z3.And(toreal(zt(x)) >= toreal(zt(bs[0])), toreal(zt(x)) <= toreal(zt(bs[-1]))))
        n = ncells + degree
        cs = [SReal(z3.Real('c%d' % j)) for j in range(n)]
        if periodic:
            for i in range(degree):
                cs[ncells + i] = cs[i]
        carr = np.empty(n, dtype=object)
        for j, c in enumerate(cs):
            carr[j] = c
        out = {}
        for der in (0, 1):
            out[der] = m['sef'].nu_eval_spline_1d_scalar(x, knots, degree, carr, der)
        span = m['sef'].nu_find_span(knots, degree, x)
        vals = np.empty(degree + 1, dtype=object)
        m['sef'].nu_basis_funs(knots, degree, x, span, vals)
        st.update(bs=bs, x=x, cs=cs)
        return out, list(vals), span

    for ctx, (kind, val) in symx.explore(body, timeout_ms=20000, index_cap=64):
        if kind != 'ok':
            if kind == 'abort' and not val.inconclusive:
                continue
            res['obligations'] += 1
            res['inconclusive'].append('symbolic knots: %s %r %r' % (kind, val, item))
            continue
        out, vals, span = val
        bs, x, cs = st['bs'], st['x'], st['cs']
        T = SO.math_knots(bs, degree, periodic)
        # the cell the path confines x to
        lo, hi = degree, len(T) - degree - 2
        cell = None
        for k in range(lo, hi + 1):
            inside = z3.And(toreal(zt(x)) >= toreal(zt(T[k])), (toreal(zt(x)) <= toreal(zt(T[k + 1]))) if k == hi else (toreal(zt(x)) < toreal(zt(T[k + 1]))))
            if ctx.check(z3.Not(inside)) == 'unsat':
                cell = k
                break
        if cell is None:
            res['inconclusive'].append('path does not fix the cell (symbolic knots) %r' % (item,))
            continue
        cvars = []
        seen = set()
        for c in cs:
            if c.t.decl().name() not in seen:
                seen.add(c.t.decl().name())
                cvars.append(c.t)
        for der in (0, 1):
            B = SO.cell_basis(T, degree, cell, x, der)
            acc = K(0)
            for c, b in zip(cs, B):
                if not (isinstance(b, int) and b == 0):
                    acc = acc + c * b
            diff = toreal(zt(out[der])) - toreal(zt(acc))
            res['obligations'] += 1
            if symx.lin_degree(diff, seen) is None:
                res['inconclusive'].append('not linear in the coefficients (symbolic knots)')
                continue
            verdict = 'unsat'
            for cname, ct in symx.coefficient_terms(diff, cvars).items():
                if z3.is_rational_value(ct) and ct.numerator_as_long() == 0:
                    continue
                r, mm = decide(ctx, ct != 0, res, 'symknots')
                if r == 'sat':
                    verdict = 'sat'
                    bv = [str(symx.model_value(mm, b)) for b in bs]
                    res['violations'].append(('eval1d:symbolic_knots', 'degree %d %s: code differs from Cox-de Boor for break points %s at x=%s (der %d)' % (
                        degree, 'periodic' if periodic else 'clamped', bv, symx.model_value(mm, x), der), dict(kind='symknots', item=[str(i) for i in item], breaks=bv)))
                    break
                if r != 'unsat':
                    verdict = 'unknown'
            if verdict == 'unsat':
                res['discharged'] += 1
            elif verdict == 'unknown':
                res['inconclusive'].append('unknown (symbolic knots) %r der=%d' % (item, der))
        res['obligations'] += 1
        r, mm = decide(ctx, z3.Or(z3.Sum([toreal(zt(v)) for v in vals]) != 1, z3.Or([toreal(zt(v)) < 0 for v in vals])), res, 'symknots basis')
        if r == 'unsat':
            res['discharged'] += 1
            res['nontrivial'].append('symknots|%r|%d' % (item, cell))
            if len(res['samples']) < 1:
                res['samples'].append(dict(part='symbolic break points', config=[str(i) for i in item], cell=cell))
        elif r == 'sat':
            res['violations'].append(('basis:symbolic_knots', 'basis negative or not summing to one for some break points (degree %d)' % degree, dict(kind='symknots', item=[str(i) for i in item])))
        else:
            res['inconclusive'].append('unknown basis query (symbolic knots) %r' % (item,))
    numenv.disable()
    res['stats'] = symx.GLOBAL.as_dict()
    symx.GLOBAL.__init__()
    return res


# ----------------------------------------------------------------------------- 2-D work item
def work_2d(item):
    (d1, per1, fam1, n1), (d2, per2, fam2, n2), path, ders, canary = item
    res = H.worker_result()
    m = numenv.mods()
    t0 = time.time()
    if canary:
        apply_canary(m, canary)
    numenv.enable()
    symx.set_bv(None)
    b1, b2 = breaks_family(fam1, n1), breaks_family(fam2, n2)
    uf = (path == 'cu')
    T1, T2 = oracle_knots(b1, d1, per1, path), oracle_knots(b2, d2, per2, path)
    st = {}

    def body(ctx):
        x, y = z3.Real('x'), z3.Real('y')
        ctx.assume(z3.And(x >= z3.RealVal(b1[0]), x <= z3.RealVal(b1[-1]), y >= z3.RealVal(b2[0]), y <= z3.RealVal(b2[-1])))
        k1, B1 = build_space(m, d1, per1, b1, uf)
        k2, B2 = build_space(m, d2, per2, b2, uf)
        sp = m['spl'].Spline2D(B1, B2)
        C = np.empty((n1 + d1, n2 + d2), dtype=object)
        for i in range(n1 + d1):
            for j in range(n2 + d2):
                ii = i - n1 if (per1 and i >= n1) else i
                jj = j - n2 if (per2 and j >= n2) else j
                C[i, j] = SReal(z3.Real('c_%d_%d' % (ii, jj)))
        sp.coeffs[:, :] = C
        st.update(x=x, y=y, C=C)
        out = {}
        for (e1, e2) in ders:
            out[('scalar', e1, e2)] = sp.eval(SReal(x), SReal(y), e1, e2)
        # cross (tensor grid) entry point on [x, a] x [y, b] and in-place variant
        X = np.empty(2, dtype=object)
        X[0], X[1] = SReal(x), K(b1[0])
        Y = np.empty(2, dtype=object)
        Y[0], Y[1] = SReal(y), K(b2[-1])
        (e1, e2), (f1, f2) = tensor_pairs(ders)
        Y3 = np.empty(3, dtype=object)          # the tensor grid is not square: 2 x 3 points
        Y3[0], Y3[1], Y3[2] = SReal(y), K(b2[-1]), K(b2[0])
        out['cross'] = sp.eval(X, Y3, e1, e2)
        z = np.empty((2, 3), dtype=object)
        z[0, 0], z[0, 1], z[1, 0], z[1, 1] = SReal(z3.Real('g1')), K(Fr(-5, 3)), K(Fr(11, 7)), SReal(z3.Real('g1')) * 2      # arbitrary values on entry
        z[0, 2], z[1, 2] = K(Fr(13, 9)), SReal(z3.Real('g1')) - 1
        sp.eval_vector(X, Y3, z, f1, f2)
        out['inplace'] = z
        # scattered-point in-place kernels ({nu,cu}_eval_spline_2d_vector; not reachable through Spline2D): points (x,y) and
        # (a, b_end), output array holding arbitrary values on entry (g0 symbolic, 7/3)
        fn = m['cuf'].cu_eval_spline_2d_vector if uf else m['sef'].nu_eval_spline_2d_vector
        for (e1, e2) in ders:
            zz = np.empty(2, dtype=object)
            zz[0], zz[1] = SReal(z3.Real('g0')), K(Fr(7, 3))
            fn(X, Y, B1.knots, d1, B2.knots, d2, sp.coeffs, zz, e1, e2)
            out[('vector', e1, e2)] = zz
        return out

    def oracle(C, xx, yy, e1, e2):
        def vec(T, p, x, der):
            k = path_cell(ctx, T, p, x)
            if k is not None:
                B = SO.cell_basis(T, p, k, x, der)
                return [K(0) if (isinstance(b, int) and b == 0) else b for b in B]
            lo, hi = p, len(T) - p - 2
            vecs = None
            for cell in range(hi, lo - 1, -1):
                B = SO.cell_basis(T, p, cell, x, der)
                B = [K(0) if (isinstance(b, int) and b == 0) else b for b in B]
                vecs = B if vecs is None else [ite(x < T[cell + 1], bn, bo) for bn, bo in zip(B, vecs)]
            return vecs
        Bx, By = vec(T1, d1, xx, e1), vec(T2, d2, yy, e2)
        acc = K(0)
        for i in range(len(Bx)):
            if symx.is_concrete(Bx[i]) and symx.fval(Bx[i]) == 0:
                continue
            row = K(0)
            for j in range(len(By)):
                if symx.is_concrete(By[j]) and symx.fval(By[j]) == 0:
                    continue
                row = row + C[i, j] * By[j]
            acc = acc + row * Bx[i]
        return acc

    npaths = 0
    for ctx, (kind, val) in symx.explore(body, timeout_ms=30000, index_cap=64):
        npaths += 1
        if kind == 'abort':
            if val.inconclusive:
                res['inconclusive'].append('abort %s in 2d %r' % (val.why, item[:4]))
            continue
        if kind == 'exc':
            res['obligations'] += 1
            res['inconclusive'].append('2d exception %r %r' % (val, item[:4])) if ctx.check() != 'sat' else \
                res['violations'].append(('eval2d:exception', '%s: %s' % (type(val).__name__, str(val)[:100]), dict(kind='2dexc', item=str(item[:4]))))
            continue
        x, y, C = SReal(st['x']), SReal(st['y']), st['C']
        checks = []
        for (e1, e2) in ders:
            checks.append((('scalar', e1, e2), val[('scalar', e1, e2)], oracle(C, x, y, e1, e2)))
        for (e1, e2) in ders:
            Z = val[('vector', e1, e2)]
            checks.append((('vector%d%d' % (e1, e2), 0, 0), Z[0], oracle(C, x, y, e1, e2)))
            checks.append((('vector%d%d' % (e1, e2), 1, 1), Z[1], oracle(C, K(b1[0]), K(b2[-1]), e1, e2)))
        for name, (e1, e2) in zip(('cross', 'inplace'), tensor_pairs(ders)):
            Z = val[name]
            checks.append(((name, 0, 0), Z[0, 0], oracle(C, x, y, e1, e2)))
            checks.append(((name, 0, 1), Z[0, 1], oracle(C, x, K(b2[-1]), e1, e2)))
            checks.append(((name, 1, 0), Z[1, 0], oracle(C, K(b1[0]), y, e1, e2)))
            checks.append(((name, 1, 1), Z[1, 1], oracle(C, K(b1[0]), K(b2[-1]), e1, e2)))
            if np.shape(Z) != (2, 3):
                res['obligations'] += 1
                res['violations'].append(('eval2d:shape', 'tensor-grid entry point %s on 2 x 3 points returns shape %s %r' % (name, np.shape(Z), item[:3]), dict(kind='2dshape', item=str(item[:4]))))
                continue
            checks.append(((name, 0, 2), Z[0, 2], oracle(C, x, K(b2[0]), e1, e2)))
            checks.append(((name, 1, 2), Z[1, 2], oracle(C, K(b1[0]), K(b2[0]), e1, e2)))
        for name, got, orc in checks:
            res['obligations'] += 1
            if got is None:
                # an output position the entry point never wrote (allocated, not assigned): decided on the float code at a point of the path
                if ctx.check() == 'sat' and confirm_2d(m, item, ctx.model(), st, name, res):
                    continue
                res['inconclusive'].append('2d output %r never written, not reproduced in floats %r' % (name, item[:4]))
                continue
            diff = toreal(zt(got)) - toreal(zt(orc))
            r, mdl = decide(ctx, diff != 0, res, '2d')
            if r == 'unsat':
                res['discharged'] += 1
            elif r == 'sat':
                ok = confirm_2d(m, item, mdl, st, name, res)
                if not ok:
                    res['inconclusive'].append('2d model does not reproduce %r %r' % (item[:4], name))
            else:
                res['inconclusive'].append('unknown 2d query %r %r' % (item[:4], name))
        if ctx.check() == 'sat':
            res['nontrivial'].append('2d|%r|%s' % (item[:4], ''.join('T' if d['choice'] else 'F' for d in ctx.decisions)))
            if len(res['samples']) < 1:
                mm = ctx.model()
                res['samples'].append(dict(config=str(item[:4]), x=str(symx.model_value(mm, x)), y=str(symx.model_value(mm, y))))
    numenv.disable()
    if canary:
        undo_canary(m)
    res['stats'] = symx.GLOBAL.as_dict()
    symx.GLOBAL.__init__()
    res['wall'] = round(time.time() - t0, 2)
    res['canary'] = canary[0] if canary else None
    return res


def confirm_2d(m, item, mdl, st, name, res):
    (d1, per1, fam1, n1), (d2, per2, fam2, n2), path, ders, canary = item
    b1, b2 = breaks_family(fam1, n1), breaks_family(fam2, n2)
    T1, T2 = oracle_knots(b1, d1, per1, path), oracle_knots(b2, d2, per2, path)
    xv = Fr(symx.model_value(mdl, SReal(st['x'])))
    yv = Fr(symx.model_value(mdl, SReal(st['y'])))
    C = st['C']
    Cv = [[Fr(symx.model_value(mdl, C[i, j])) for j in range(C.shape[1])] for i in range(C.shape[0])]
    ep, i0, i1 = name
    if ep == 'scalar':
        e1, e2 = i0, i1
        px, py = xv, yv
    elif ep.startswith('vector'):
        e1, e2 = int(ep[6]), int(ep[7])
        px = xv if i0 == 0 else b1[0]
        py = yv if i1 == 0 else b2[-1]
    else:
        e1, e2 = tensor_pairs(ders)[0 if ep == 'cross' else 1]
        px = xv if i0 == 0 else b1[0]
        py = [yv, b2[-1], b2[0]][i1]
    numenv.disable()
    try:
        B1, B2 = float_space(m, d1, per1, b1, path == 'cu'), float_space(m, d2, per2, b2, path == 'cu')
        sp = m['spl'].Spline2D(B1, B2)
        sp.coeffs[:, :] = [[float(v) for v in row] for row in Cv]
        if ep == 'scalar':
            got = float(sp.eval(float(px), float(py), e1, e2))
        else:
            X, Y = np.array([float(xv), float(b1[0])]), np.array([float(yv), float(b2[-1])])
            if ep.startswith('vector'):
                fn = m['cuf'].cu_eval_spline_2d_vector if path == 'cu' else m['sef'].nu_eval_spline_2d_vector
                z = np.array([float(Fr(symx.model_value(mdl, SReal(z3.Real('g0'))))), 7.0 / 3.0])
                fn(X, Y, B1.knots, d1, B2.knots, d2, sp.coeffs, z, e1, e2)
                got = float(z[i0])
            elif ep == 'cross':
                Y3 = np.array([float(yv), float(b2[-1]), float(b2[0])])
                got = float(sp.eval(X, Y3, e1, e2)[i0, i1])
            else:
                Y3 = np.array([float(yv), float(b2[-1]), float(b2[0])])
                g1 = float(Fr(symx.model_value(mdl, SReal(z3.Real('g1')))))
                z = np.array([[g1, -5.0 / 3.0, 13.0 / 9.0], [11.0 / 7.0, 2 * g1, g1 - 1]])
                sp.eval_vector(X, Y3, z, e1, e2)
                got = float(z[i0, i1])
    except Exception as e:
        got = e
    finally:
        numenv.enable()
    c1 = SO.find_cell_fraction(T1, d1, px)
    c2 = SO.find_cell_fraction(T2, d2, py)
    Bx, By = SO.cell_basis(T1, d1, c1, px, e1), SO.cell_basis(T2, d2, c2, py, e2)
    exact = sum(Cv[i][j] * Bx[i] * By[j] for i in range(len(Bx)) for j in range(len(By)))
    scale = max([1.0] + [abs(float(v)) for row in Cv for v in row]) * 64
    rep = dict(kind='2d', item=str(item[:4]), entry=str(name), x=str(px), y=str(py), float_result=str(got), exact=str(exact), canary=bool(canary))
    if isinstance(got, Exception) or abs(got - float(exact)) > 1024 * EPS * scale * max(1.0, abs(float(exact))):
        res['violations'].append(('eval2d:%s' % path, '2-D %s entry point: code %s vs exact %s at (%s,%s) %r' % (ep, got, float(exact), float(px), float(py), item[:3]), rep))
        return True
    return False


# ----------------------------------------------------------------------------- binary64 span search of the fast path
FP_DOMAINS_QUICK = [(-1.0, 1.0, 4), (0.0, 1.0, 8), (-float(np.pi), float(np.pi), 8), (-5.0, 5.0, 10), (0.0, 2 * float(np.pi), 16)]
FP_DOMAINS_THOROUGH = FP_DOMAINS_QUICK + [(0.1, 14.5, 256), (0.1, 14.5, 32), (-7.32, 7.32, 32), (-7.32, 7.32, 128), (0.0, 1506.759067, 32),
                                          (0.0, 2 * float(np.pi), 64), (-3.0, 7.0, 3), (1e-3, 1.0, 7)]


def work_fp_span(item):
    """cu_find_span run on binary64 proxies (lib/symfp): for EVERY double x with xmin <= x <= xmax of the listed domains
    (xmin, xmax, dx, ncells exactly as the real BSplines stores them) the returned span lies in [3, ncells+2] (the four
    coefficients read exist) and the offset in [0, 1]: no rounding of (x-xmin)/dx near a cell edge or one ulp inside an
    end point leaves the coefficient array.  QF_FP, bit-precise, no sampling."""
    from lib import symfp
    xmin, xmax, n, canary = item
    res = H.worker_result()
    m = numenv.mods()
    t0 = time.time()
    if canary:
        apply_canary(m, canary)
    numenv.disable()
    cuf, spl = m['cuf'], m['spl']
    breaks = np.linspace(xmin, xmax, n + 1)
    basis = spl.BSplines(spl.make_knots(breaks, 3, False), 3, False, True)
    kxmin, kxmax, kdx, kn = [float(v) for v in basis.knots]
    kn = int(kn)

    def body(ctx):
        ctx.oneshot = True
        x = symfp.var('x')
        ctx.assume(z3.And(z3.fpGEQ(x.t, symfp.lift(kxmin)), z3.fpLEQ(x.t, symfp.lift(kxmax))))
        span, off = cuf.cu_find_span(kxmin, kxmax, kdx, x, kn)
        return x, span, off

    had_int = 'int' in vars(cuf)
    old_int = vars(cuf).get('int')
    cuf.int = symfp.fp_int
    try:
        for ctx, (kind, val) in symx.explore(body, timeout_ms=300000):
            if kind == 'abort':
                if val.inconclusive:
                    res['inconclusive'].append('fp span abort %s %r' % (val.why, item[:3]))
                continue
            res['obligations'] += 1
            if kind == 'exc':
                res['inconclusive'].append('fp span exception %r %r' % (val, item[:3]))
                continue
            x, span, off = val
            st, ot = symfp.lift(span), symfp.lift(off)
            good = z3.And(z3.fpGEQ(st, symfp.lift(3)), z3.fpLEQ(st, symfp.lift(kn + 2)), z3.fpGEQ(ot, symfp.lift(0.0)), z3.fpLEQ(ot, symfp.lift(1.0)))
            r = ctx.check(z3.Not(good))
            if r == 'unsat':
                res['discharged'] += 1
                res['nontrivial'].append('fpspan|%r|%s' % (item[:3], ''.join('T' if d['choice'] else 'F' for d in ctx.decisions)))
            elif r == 'sat':
                xv = symfp.model_float(ctx.model(), x)
                cuf.int = old_int if had_int else int
                try:
                    got = cuf.cu_find_span(kxmin, kxmax, kdx, xv, kn)
                    ok = 3 <= got[0] <= kn + 2 and 0.0 <= got[1] <= 1.0
                    sp = spl.Spline1D(basis)
                    sp.coeffs[:] = 1.0
                    try:
                        ev = repr(float(sp.eval(xv)))
                    except Exception as e:
                        ev = '%s: %s' % (type(e).__name__, e)
                except Exception as e:
                    got, ok, ev = repr(e), False, repr(e)
                finally:
                    cuf.int = symfp.fp_int
                rep = dict(kind='fpspan', xmin=repr(kxmin), xmax=repr(kxmax), dx=repr(kdx), ncells=kn, x=repr(xv), span_offset=str(got), spline_eval=ev, canary=bool(canary))
                if not ok:
                    res['violations'].append(('cu_find_span:binary64', 'cu_find_span(%r, %r, %r, x=%r, %d) returns %s (span must be in [3,%d], offset in [0,1]); '
                                              'Spline1D.eval with unit coefficients there: %s' % (kxmin, kxmax, kdx, xv, kn, got, kn + 2, ev), rep))
                else:
                    res['inconclusive'].append('binary64 model does not reproduce: %r' % rep)
            else:
                res['inconclusive'].append('unknown binary64 span query %r' % (item[:3],))
    finally:
        if had_int:
            cuf.int = old_int
        else:
            try:
                del cuf.int
            except AttributeError:
                pass
    if canary:
        undo_canary(m)
    res['stats'] = symx.GLOBAL.as_dict()
    symx.GLOBAL.__init__()
    res['wall'] = round(time.time() - t0, 2)
    res['canary'] = canary[0] if canary else None
    return res


# ----------------------------------------------------------------------------- canaries (in-memory source mutants)
_CAN_SAVED = []


def _swap_code(old, new):
    if getattr(old, '__code__', None) is not None and getattr(new, '__code__', None) is not None \
            and old.__code__.co_code != new.__code__.co_code or (getattr(old, '__code__', None) is not None and getattr(new, '__code__', None) is not None
                                                                  and old.__code__.co_consts != new.__code__.co_consts):
        _CAN_SAVED.append((old, old.__code__))
        old.__code__ = new.__code__


def apply_canary(m, canary):
    """swap the code objects of the functions/methods that differ in a source mutant into the live module
    (so that every importer sees the mutant); undone by undo_canary"""
    name, modkey, edits = canary
    mod = m[modkey]
    mut = H.mutant_module(mod, edits)
    for k, v in list(vars(mut).items()):
        if k.startswith('__'):
            continue
        old = getattr(mod, k, None)
        if isinstance(v, type) and isinstance(old, type):
            for ak, av in vars(v).items():
                ao = vars(old).get(ak)
                if isinstance(av, (staticmethod, classmethod)) and isinstance(ao, (staticmethod, classmethod)):
                    _swap_code(ao.__func__, av.__func__)
                elif isinstance(av, property) and isinstance(ao, property):
                    if av.fget and ao.fget:
                        _swap_code(ao.fget, av.fget)
                elif callable(av) and callable(ao):
                    _swap_code(ao, av)
        elif callable(v) and callable(old) and getattr(v, '__module__', None) == mut.__name__:
            _swap_code(old, v)


def undo_canary(m):
    for f, code in _CAN_SAVED:
        f.__code__ = code
    del _CAN_SAVED[:]


CANARIES = [
    ('recursion weight perturbed by 1e-7', 'sef', [("values[r] = saved + right[r] * temp", "values[r] = saved + right[r] * temp * (1.0000001 if j == degree-1 and r == 0 else 1.0)")]),
    ('right end point maps to last span + 1', 'sef', [("        returnVal = high-1\n", "        returnVal = high-1 if x > knots[high] else high-2\n")]),
    ('uniform cubic derivative sign', 'cuf', [("ders[1] = -coeff * (1+2*b-3*b*b)", "ders[1] = -coeff * (1+2*b-3*b*o)")]),
]
FP_CANARY = ('last cell decided by x == xmax instead of span == ncells', 'cuf', [("    if span == ncells:\n", "    if x == xmax:\n")])


def configs(tier):
    c1, c2 = [], []
    if tier == 'quick':
        degs, fams, cells = [1, 2, 3, 4, 5], ['uniform', 'graded', 'irregular'], {1: [1, 3], 2: [2, 3], 3: [3, 4], 4: [4, 5], 5: [5, 6]}
    else:
        degs = list(range(1, 11))
        fams = ['uniform', 'graded', 'alternating', 'geometric', 'irregular']
        cells = {d: [1, 2, 3, d, d + 1, 8] for d in degs}
    for d in degs:
        for fam in fams:
            for n in sorted(set(cells[d])):
                for per in (False, True):
                    if per and n < d:            # make_knots admits periodic spaces with ncells >= degree
                        continue
                    c1.append((d, per, fam, n, 'nu', None))
    for n in ([1, 2, 3, 5] if tier == 'quick' else [1, 2, 3, 4, 6, 8]):
        for per in (False, True):
            if per and n < 3:
                continue
            c1.append((3, per, 'uniform', n, 'cu', None))
    # 2-D
    if tier == 'quick':
        c2.append(((3, True, 'uniform', 4), (3, False, 'uniform3', 2), 'cu', [(0, 0), (1, 0), (0, 1), (1, 1)], None))
        c2.append(((2, True, 'graded', 3), (3, False, 'irregular', 2), 'nu', [(0, 0), (1, 1)], None))
        c2.append(((1, False, 'irregular', 2), (2, True, 'uniform', 3), 'nu', [(0, 1), (1, 0)], None))
    else:
        for da, db in itertools.product([1, 2, 3, 4, 5], repeat=2):
            for dd in ([(0, 0), (1, 1)], [(0, 1), (1, 0)]):
                c2.append(((da, True, 'graded', da + 1), (db, False, 'irregular', 2), 'nu', dd, None))
        for dd in ([(0, 0), (1, 0)], [(0, 1), (1, 1)]):
            c2.append(((3, True, 'uniform', 4), (3, False, 'uniform3', 3), 'cu', dd, None))
            c2.append(((3, False, 'uniform3', 1), (3, True, 'uniform', 5), 'cu', dd, None))
    return c1, c2


def array_dtype_item(spec):
    """concrete part: the array entry point Spline1D.eval(x) returns what the scalar entry point returns point by point, whatever
    the type of the point array (break points handed over as an integer array) and of the coefficients (the constructor offers
    dtype=complex).  The scalar entry point itself is decided against the oracle by the exact items."""
    degree, periodic, path, n = spec
    res = H.worker_result()
    m = numenv.mods()
    numenv.disable()
    try:
        spl = m['spl']
        kn = spl.make_knots(np.arange(0.0, n + 1.0), degree, periodic)
        b = spl.BSplines(kn, degree, periodic, path == 'cu')
        rng = np.random.RandomState(11)
        nb = len(np.zeros(b.ncells + b.degree))
        cr = rng.rand(nb) * 2 - 1
        if periodic:
            cr[b.ncells:] = cr[:b.degree]
        xi = np.arange(0, n + 1)                         # integer-typed array of all break points, both ends included
        xf = xi.astype(float) * 0.5 + 0.25 * (n % 2)          # float points inside the domain
        xf = xf[(xf >= 0) & (xf <= n)]
        for label, dtype, coeffs, pts in (('integer-typed point array', float, cr, xi), ('float point array', float, cr, xf),
                                          ('complex coefficients, float point array', np.complex128, cr * (1 + 2j) + 0.5j, xf)):
            for der in (0, 1):
                res['obligations'] += 1
                sp = spl.Spline1D(b, dtype)
                sp.coeffs[:] = coeffs
                want = np.array([sp.eval(float(x), der) for x in pts])
                import warnings
                with warnings.catch_warnings():
                    warnings.simplefilter('ignore')
                    got = np.asarray(sp.eval(pts, der))
                dev = float(np.max(np.abs(got.astype(complex) - want.astype(complex)))) if got.shape == want.shape else float('inf')
                if not dev <= 1e-12 * max(1.0, float(np.max(np.abs(want)))):
                    res['violations'].append(('entrypoint:array_dtype', 'Spline1D.eval on an array (%s, derivative %d, degree %d %s %s): differs from the scalar entry point by %.3g at the same points (array result dtype %s; e.g. %s vs %s)' % (
                        label, der, degree, 'periodic' if periodic else 'clamped', path, dev, got.dtype, got[:3], want[:3]),
                        dict(kind='array_dtype', spec=[str(x) for x in spec], case=label, der=der)))
                else:
                    res['discharged'] += 1
                    res['nontrivial'].append('array_dtype|%r|%s|%d' % (spec, label, der))
    except Exception as e:
        res['obligations'] += 1
        res['violations'].append(('entrypoint:array_dtype', '%s: %s %r' % (type(e).__name__, str(e)[:150], spec), dict(kind='array_dtype', spec=[str(x) for x in spec])))
    finally:
        numenv.enable()
        numenv.disable()
    return res


def main():
    run = H.Run(PID, 'proof')
    m = numenv.mods()
    if run.args.replay:
        print(json.dumps(json.load(open(run.args.replay))['replay'], indent=1))
        print('re-run: ./check C07 (the replay record holds x, coefficients, the float result and the exact value)')
        sys.exit(0)
    sef, cuf, spl = m['sef'], m['cuf'], m['spl']
    run.functions = H.src_info(sef.nu_find_span, sef.nu_basis_funs, sef.nu_basis_funs_1st_der, sef.nu_eval_spline_1d_scalar,
                               sef.nu_eval_spline_1d_vector, sef.nu_eval_spline_2d_scalar, sef.nu_eval_spline_2d_cross,
                               cuf.cu_find_span, cuf.cu_basis_funs, cuf.cu_basis_funs_1st_der, cuf.cu_eval_spline_1d_scalar,
                               cuf.cu_eval_spline_1d_vector, cuf.cu_eval_spline_2d_scalar, cuf.cu_eval_spline_2d_cross, cuf.cu_eval_spline_2d_vector,
                               sef.nu_eval_spline_2d_vector,
                               spl.make_knots, spl.BSplines.__init__, spl.BSplines.__getitem__, spl.Spline1D.eval,
                               spl.Spline1D.eval_vector, spl.Spline2D.eval, spl.Spline2D.eval_vector)
    if run.tier == 'thorough':
        DECIDE_MS[0] = 180000          # the symbolic-break-point queries of degree 4 sit near the quick budget on a loaded machine
        __import__('os').environ['VERIF_C07_DECIDE_MS'] = '180000'
    c1, c2 = configs(run.tier)
    for cn in CANARIES:
        if cn[1] == 'cuf':
            c1.append((3, False, 'uniform', 3, 'cu', cn))
        else:
            c1.append((3, False, 'graded', 4, 'nu', cn))
    caught = {}
    sub = 0
    for r in H.pmap(work_1d, c1, run.args.jobs):
        if r.get('canary'):
            run.add_stats(r.get('stats', {}))
            caught[r['canary']] = bool(r['violations'])
            continue
        sub += r.get('sub_rounding', 0)
        run.merge(r)
    for spec_ in [(3, False, 'cu', 6), (3, True, 'nu', 5), (2, False, 'nu', 4), (1, False, 'nu', 3), (5, True, 'nu', 7), (3, True, 'cu', 4)]:
        run.merge(array_dtype_item(spec_))
    for r in H.pmap(work_2d, c2, run.args.jobs):
        sub += r.get('sub_rounding', 0)
        run.merge(r)
    fpd = FP_DOMAINS_QUICK if run.tier == 'quick' else FP_DOMAINS_THOROUGH
    fp_items = [d + (None,) for d in fpd] + [(-1.0, 1.0, 4, FP_CANARY)]
    for r in H.pmap(work_fp_span, fp_items, run.args.jobs):
        if r.get('canary'):
            run.add_stats(r.get('stats', {}))
            caught[r['canary']] = bool(r['violations'])
            continue
        run.merge(r)
    run.sections['binary64_span_domains'] = [list(d) for d in fpd]
    if run.tier == 'quick':
        sk = [(1, False, 2, 'all', 'graded'), (2, False, 2, 'all', 'graded'), (2, True, 3, 'all', 'graded'), (3, False, 4, 2, 'irregular'), (3, True, 4, 1, 'irregular')]
        for r in H.pmap(work_symknots, sk, run.args.jobs):
            run.merge(r)
        run.sections['symbolic_break_point_configs'] = len(sk)
    if run.tier == 'thorough':
        sk = []
        for per in (False, True):
            for n in (1, 2, 3):
                if per and n <= 1:
                    continue
                sk.append((1, per, n, 'all', 'graded'))
                if not (per and n <= 2):
                    sk.append((2, per, n, 'all', 'graded'))
        for n in (1, 2):
            sk.append((3, False, n, 'all', 'graded'))
        for per in (False, True):
            for k in (1, 2, 3):
                sk.append((3, per, 4, k, 'irregular'))
        for k in (1, 2, 4):
            sk.append((4, False, 5, k, 'irregular'))
        for r in H.pmap(work_symknots, sk, run.args.jobs):
            run.merge(r)
        run.sections['symbolic_break_point_configs'] = len(sk)
    for cn in CANARIES + [FP_CANARY]:
        hit = caught.get(cn[0], False)
        run.canaries.append(dict(name=cn[0], detected=hit))
        if not hit:
            run.canary_miss(cn[0], caught)
    numenv.enable()
    run.stubs = sorted(set(numenv.STUBS))
    numenv.disable()
    run.sections['sub_rounding_deviations'] = sub
    run.sections['configs_1d'] = len(c1)
    run.sections['configs_2d'] = len(c2)
    run.bounds = dict(quick='degrees 1-5, 3 knot families, cells<=6, uniform-cubic fast path cells 1,2,5; 2-D three configurations',
                      thorough='1-D degrees 1-10, 5 knot families, cells in {1,2,3,d+1,8}; 2-D degrees 1-5 x 1-5', this_run=run.tier)
    run.outside = ['IEEE-754 rounding of the basis recursion and of the coefficient sums (floats are exact reals there); the span search of the uniform-cubic fast path IS decided in binary64 (every double of the listed domains), the binary search of the general path only compares, so exact reals are faithful for it',
                   'knot vectors other than the listed rational families (quick); thorough adds, through the kernels, all break points symbolic for degrees 1-2 (<= 3 cells) and degree 3 (<= 2 cells, clamped), and one symbolic interior break point for degree 3 (both boundaries) and degree 4 (clamped)']
    run.assumptions = ['exact real arithmetic stands in for doubles', 'np.around(x, 15) is the identity in exact arithmetic']
    run.finish(
        explanation='Real kernels executed on z3 Real proxies for x (,y) and all coefficients with exact rational knots; the span '
                    'search forks on x, each path (cell / knot / end point) closes with z3 deciding code == Cox-de Boor oracle for '
                    'value and first derivative, basis >= 0, sum basis = 1, sum basis\' = 0, span range, periodic closure, and that '
                    'array / in-place / tensor-grid / scattered-point (2d_vector, output prefilled with arbitrary values) entry points and BSplines[i] agree with the oracle; cu_find_span additionally on binary64 proxies (QF_FP): span in [3,ncells+2], offset in [0,1] for every double in the closed domain.',
        rule='case = (degree, boundary, knot family, cells, kernel path) x feasible path of the span search; distinct by decision string')


if __name__ == '__main__':
    main()
