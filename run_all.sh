#!/bin/sh
# runs the quick (or given) tier of every claimed check; prints one line per check
TIER=${1:-quick}
cd "$(dirname "$0")"
for id in $(python3 -c "import json; print(' '.join(c['property_id'] for c in json.load(open('MANIFEST.json'))['checks']))"); do
  ./check $id --tier $TIER > /tmp/runall_$id.log 2>&1; rc=$?
  echo "$id rc=$rc $(tail -1 /tmp/runall_$id.log | cut -c1-200)"
done
