#!/usr/bin/env python3
"""Regenerates MANIFEST.json from the table below (kept in one place so that it stays valid)."""
import json
import os

HERE = os.path.dirname(os.path.abspath(__file__))

TRUST = ('Trusted base: CPython interpreting the real pygyro source on proxy values (lib/symx.py), z3 5.1; '
         'exact real arithmetic stands in for IEEE-754 doubles wherever reals occur (stated per check). ')

CLAIMED = {
    'C01': dict(
        category='proof',
        technique='concolic symbolic execution of the real LayoutHandler on bit-vector extents over a symbolic-shape numpy/MPI model; z3 element-wise queries (bounded)',
        text='Bounded solver proof over symbolic extents: the real LayoutHandler code (constructor, swap-axis detection, '
             'extract/Alltoall/rearrange, multi-step redirects with buffer parity) runs on bit-vector extents n_i in [p_i,N]; per '
             'feasible path and rank z3 shows no in-range destination index holds anything but the global field value and (buffer '
             'given) no source element changed; numpy/MPI errors on feasible paths are violations. Multi-step routes are verified '
             'step by step (assume/guarantee on the intermediate state). Sat models are replayed on real numpy.',
        design_ref='DESIGN.md 4 C01',
        note=TRUST + 'Also trusted: lib/symnp.SymArr (numpy view model), lib/simmpi (MPI collective contract). Bounds: ranks 2-3 '
                     '(thorough 2-4), N=4/3 (thorough 6/4/3), <=3 processes per direction; payload type abstracted.'),
    'C02': dict(
        category='proof',
        technique='concolic symbolic execution of the real Layout/Grid code on z3 Int (unbounded extent) and bit-vector proxies; SMT queries',
        text='(a) For every process count p<=8 (thorough 24), every rank and the listed 2-D grids/orderings, Layout.__init__ is run '
             'on an unbounded symbolic extent n>=p and z3 proves: blocks tile [0,n) in rank order, lengths differ by at most one and '
             'are >=1, tables agree on all ranks, starts/ends/shape/max_block_shape/fullShape agree with them (a proof for all n per '
             'listed p). (b) bufferSize >= every layout block for bit-vector extents <= N. (c) the real Grid accessors run on '
             'symbolic-length coordinate sequences and agree with the tables. Counter-models replayed on real numpy.',
        design_ref='DESIGN.md 4 C02',
        note=TRUST + 'Bounds: p per direction as listed; buffers/accessors for extents <= 4..8. Transpose sufficiency of the buffer '
                     'is the absence of numpy errors in the C01/C03 runs.'),
    'C03': dict(
        category='proof',
        technique='concolic symbolic execution of the real LayoutSwapper on bit-vector extents over the symbolic-shape numpy/MPI model; assume/guarantee per step; z3 element-wise queries',
        text='Bounded solver proof over symbolic extents for the driver\'s three-group swapper (and, thorough, its 4-D analogue and a '
             'two-group family): every ordered pair of layouts, with and without buffer, on every rank: each single step (handler '
             'transpose, gather by Allgather of padded blocks + unpack, scatter by local slice, local transpose) leaves the destination '
             'equal to the global field at the rank\'s own global indices (so replicas are identical), the source intact when a buffer '
             'is given, and the current-manager bookkeeping right; the post-condition of a step is the pre-condition of the next, which '
             'covers chains and round trips of any length.',
        design_ref='DESIGN.md 4 C03',
        note=TRUST + 'Also trusted: lib/symnp.SymArr, lib/simmpi. Bounds: extents <= 3 (thorough 4), grids up to (2,2) (thorough (3,3)); '
                     'MPI.DOUBLE byte width not modelled.'),
    'C04': dict(
        category='proof',
        technique='inductive step by concolic symbolic execution of the real Grid methods from an arbitrary invariant-satisfying state; z3 bit-vector queries on symbolic-shape buffers',
        text='One inductive step from an arbitrary valid state: the discrete part of the pre-state (save memory, buffer index '
             'permutation, current/saved layout, flags, argument) is forked by the solver, extents and buffer contents are symbolic; '
             'the real setLayout / saveGridValues / restoreGridValues / freeGridSave / getAllData run with LayoutHandler.transpose '
             'replaced by its C01/C03 contract; z3 shows the representation invariant and the single-array reference model hold '
             'afterwards and that illegal save/restore/free are refused exactly. Because the invariant is re-established, histories '
             'of any length are covered. Violations are replayed through a concrete history on the real Grid + LayoutHandler.',
        design_ref='DESIGN.md 4 C04',
        note=TRUST + 'Assumes the transpose contract (C01/C03) and the stated representation invariant; extents <= 4; payload abstract.'),
    'C05': dict(
        category='proof',
        technique='symbolic execution of the real grid-level operator loops and initialisers on every simulated rank with index-tagged symbolic data; kernels as recorders / uninterpreted functions; z3 equality queries on the parameters each slice receives',
        text='Partial claim (the part the property\'s second sentence states): on every rank of every listed process grid, each grid-level '
             'operator (flux-surface, v-parallel incl. keep-gradient, poloidal incl. splines-unchanged) hands to its per-slice kernel the '
             'table rows / advection speed / radius / velocity / potential plane of that slice\'s own global coordinates and processes '
             'every global slice exactly once, and the three layout-specific initialisers produce init_f at the global coordinates '
             '(exp/tanh/sqrt/cos uninterpreted). Flux tables are compared symbolically in dt. The real ParallelGradient under the real v-parallel gridStep gives, on every distributed grid, the speeds of the one-process run of the same code (symbolic potential). With C01/C03/C04 (layout changes) and '
             'C07-C13/C16 (kernels) this gives decomposition independence of the split step in exact arithmetic.',
        design_ref='DESIGN.md 4 C05',
        note=TRUST + 'NOT decided: equality of floating-point results (reduction order/rounding), the quasi-neutrality solve (FFT/spsolve). '
                     'Kernels are assumed to be functions of (numerical parameters, input slice). Extents (3,4,7,3), grids {1,2}^2 (thorough {1,2,3}^2).'),
    'C06': dict(
        category='proof',
        technique='symbolic set-iteration order (priorities as z3 Ints) through the real route search; symbolic-extent execution of all ranks under a mismatch/deadlock-detecting MPI simulator; symbolic selections through the gather/reduce branches',
        text='(a) For every connected layout graph on <= 4 (thorough 5) named nodes and the driver\'s graphs, every class of set '
             'iteration orders (a superset of all hash seeds) yields the same route map and every route is a valid shortest path. '
             '(b) The real swapper constructor and transposition sequences run on symbolic extents on all ranks; the simulator raises '
             'on any mismatching kind/root/datatype, on counts that can differ for some extent (z3), and on deadlock; per-communicator '
             'traces agree. (c) Every branch of getBlockForFig/getMin/getMax (symbolic selection, plot-only rank with an empty block) '
             'and setupSave issues the same collective sequence on all ranks. Deterministic ranks + matching in call order make the '
             'result independent of arrival order.',
        design_ref='DESIGN.md 4 C06',
        note=TRUST + 'Trusted: MPI matching semantics of lib/simmpi. Bounds as listed in the evidence; setup functions exercised through their '
                     'constituent calls rather than end to end.'),
    'C07': dict(
        category='proof',
        technique='concolic symbolic execution of the real spline kernels on exact z3 Real proxies; per-path polynomial identities decided by z3 (nlsat); cu_find_span additionally on binary64 proxies (z3 QF_FP)',
        text='Bounded solver proof in exact real arithmetic: the real kernels and dispatching classes run with the evaluation '
             'point(s) and all coefficients symbolic; the span search forks on x, and on every path (cell, knot or end point) z3 '
             'decides that value and first derivative equal an independent Cox-de Boor oracle on the knot vector the path uses, that '
             'the basis is non-negative, sums to one, derivatives sum to zero, span in range, periodic closure (value; slope for '
             'degree>=2), and that array / in-place / tensor-grid / scattered-point (output prefilled with arbitrary values) entry points and BSplines[i] agree with the oracle. The span search of the uniform-cubic fast path is also run on binary64 proxies: for every double in the closed domain of the listed domains span and offset stay in range (QF_FP). Models are '
             'searched in grades (1e-6,1e-9,1e-12) and replayed on the float code.',
        design_ref='DESIGN.md 4 C07',
        note=TRUST + 'Not claimed: IEEE rounding of the basis recursion and sums (the fast-path span search is bit-precise on the listed domains only). Bounds: degrees 1-5 (thorough '
                     '1-10), listed rational knot families, cells <= 8, 2-D degrees <= 5; additionally symbolic break points through the kernels: all of them for degrees 1-2 (and degree 3 with <= 2 cells, thorough), one interior break point for degree 3 (and 4 clamped, thorough).'),
    'C08': dict(
        category='proof',
        technique='concolic symbolic execution of the real interpolator classes on exact z3 Real data; LAPACK/SuperLU by contract; z3 linear/polynomial queries',
        text='Bounded solver proof in exact reals for all data vectors/matrices: the real SplineInterpolator1D/2D code (collocation '
             'matrix, band packing, bandwidths, periodic wrap, two-sweep tensor solve) runs on symbolic data; the banded/sparse '
             'factorisation is replaced by its contract on the matrix unpacked by LAPACK\'s documented band layout; z3 shows the '
             'interpolant evaluated by the real kernels equals the data at every interpolation point, wrapped coefficients are '
             'consistent, and on clamped spaces every polynomial of degree <= p is reproduced (value and slope) for all x. Periodic spaces down to ncells == degree; genuinely complex data on clamped spaces, also when a real interpolator (or a 2-D one) was built on the same basis object before.',
        design_ref='DESIGN.md 4 C08',
        note=TRUST + 'Trusted: solve contract (elimination itself), exact Gaussian elimination in Q of lib/numenv. Not claimed: '
                     'conditioning/rounding. Complex data are pairs of symbolic reals; the dgbtrs stand-in discards imaginary parts like the f2py wrapper.'),
    'C09': dict(
        category='proof',
        technique='concolic symbolic execution of the real quadrature/integral code on exact proxies with symbolic data; z3 linear queries against an independent exact integration oracle; rounded-real (|e| <= 2^-53 B per operation) run of the constructor for its floating-point decisions',
        text='Bounded solver proof in exact reals: for all data u, sum_i w_i u_i equals the exact integral of the interpolant '
             '(coefficients from the real compute_interpolant, basis integrals from an independent piecewise-polynomial integration '
             'in Q); weights sum to the domain length; equal on uniform periodic spaces; stored basis integrals equal the true '
             'integrals (per periodic basis function on periodic spaces). Periodic spaces down to ncells == degree. Additionally, for the uniform-cubic clamped constructor, the knot spans found in binary64 equal those of exact arithmetic for all doubles xmin in [-100,100], width in [2^-6,200] (rounded-real model in linear real arithmetic; binary64 witness search only for counter-models). Counter-models replayed on the float code.',
        design_ref='DESIGN.md 4 C09',
        note=TRUST + 'Bounds: degrees 1-5 (thorough 1-6), listed knot families, cells <= 8, uniform-cubic fast path; stored basis integrals additionally for ALL break points of degree 1-2 spaces (2-3 cells) and one symbolic break point of cubic spaces. Solver contracts as C08.'),
    'C10': dict(
        category='proof',
        technique='concolic symbolic execution of the real FluxSurfaceAdvection with the whole surface and the time step symbolic; per-path rational-function identities in dt decided by z3 (nlsat)',
        text='Bounded solver proof in exact reals: f[theta,z] fully symbolic, dt a real variable sweeping displacements of several cells '
             'of either sign; the floor of the displacement forks (one path per stencil position, plus the on-node case of the first '
             'barycentric formula); per output entry z3 decides that the step equals the degree-5 Lagrange interpolation (product form, '
             'six nodes centred on the foot) of the theta-splines evaluated along the field line with periodic wrap in theta and z. '
             'Constants preserved, linearity, z-shift commutation and exact circular shift for whole-cell displacements follow.',
        design_ref='DESIGN.md 4 C10',
        note=TRUST + 'numpy array division by zero modelled by a poison value that np.where must discard. Rational twist profiles only. '
                     'Grid-level loop over slices is under C05.'),
    'C11': dict(
        category='proof',
        technique='concolic symbolic execution of the real VParallelAdvection.step with symbolic nodal values and symbolic shift; per-path polynomial identities in the shift decided by z3 (nlsat)',
        text='Bounded solver proof in exact reals: all nodal values and the shift s=c*dt (|s| <= 1-2 domain widths) symbolic; the '
             'boundary tests and span searches fork on s; on every path and for every node z3 decides, coefficient by coefficient in '
             'the data, that the new value is the oracle interpolant at v_i - s, or the equilibrium at (r, foot) / zero / the periodic '
             'image when the foot is outside [vMin, vMax]; the periodic loop terminates within the bound.',
        design_ref='DESIGN.md 4 C11',
        note=TRUST + 'exp/tanh/sqrt uninterpreted with range facts. Grid-level use of the gradient table is checked under C05. Bounds: listed v spaces.'),
    'C12': dict(
        category='proof',
        technique='symbolic execution of the real PoloidalAdvection.step with the whole distribution symbolic for a listed exact family of potentials and time steps; z3 linear identities against an independent exact Heun/interpolation oracle',
        text='Partial claim in exact arithmetic, for all f: with a constant potential the step is the identity; with phi = omega r^2/2 it '
             'is the exact rigid rotation by omega dt/B0 in both the explicit and the implicit scheme (whose iteration ends after its '
             'first pass); with r-independent and generic rational spline potentials (explicit scheme) every new nodal value is the 2-D '
             'oracle interpolant of f at the foot of the independently implemented Heun characteristic (theta mod 2 pi), and feet outside '
             'the radial domain take zero / the equilibrium at the inner radius / the equilibrium at the foot, in both boundary modes. Every listed implicit input is first run through the real float step under a CPU-time budget: a step whose iteration does not come back is reported.',
        design_ref='DESIGN.md 4 C12',
        note=TRUST + 'NOT decided: arbitrary potentials, third-order agreement of the two schemes, termination of the implicit iteration beyond the listed inputs. '
                     'exp/tanh/sqrt uninterpreted.'),
    'C13': dict(
        category='proof',
        technique='symbolic execution of the real ParallelGradient with a fully symbolic potential; z3 linear real arithmetic against an independent formula-level oracle',
        text='Bounded solver proof in exact reals for all potentials: every output entry of parallel_gradient equals b_z(r)/dz times the '
             'finite-difference combination (weights obtained independently from the moment conditions up to the requested order) of the '
             'theta-splines of the neighbouring z planes evaluated along the field line, with periodic z wrap, for orders 2-6, constant '
             'and radius-dependent rotational transform and local radial blocks not starting at 0.',
        design_ref='DESIGN.md 4 C13',
        note=TRUST + 'numpy.linalg.solve by exact contract. Convergence order is claimed only through the moment conditions of the weights.'),
    'C14': dict(
        category='proof',
        technique='symbolic execution of the real finite-element assembly and per-mode solve with uninterpreted coefficient functions and symbolic right-hand side; scipy.sparse/spsolve by stand-in/contract; z3 entrywise identities against an independent dense Galerkin assembly',
        text='Partial claim in exact arithmetic: for every mode (global index on distributed modes) and axial position the matrix and '
             'right-hand side the real DiffEqSolver hands to the sparse solve equal the dense Galerkin matrix of the weak form '
             'int[-A phi\'(psi r)\' + B phi\' psi r + C phi psi r - m^2 D phi psi r] and int E rho_h psi r on the same Gauss-Legendre '
             'nodes, restricted to the unknowns of that mode\'s Dirichlet/Neumann choice; the solved coefficients are placed at those '
             'unknowns with zeros at Dirichlet ends and evaluated at the radial nodes; pure-Neumann modes with vanishing C are refused. '
             'B,C,D,E arbitrary (uninterpreted), A constant, all right-hand sides.',
        design_ref='DESIGN.md 4 C14',
        note=TRUST + 'spsolve by contract, scipy.sparse by a dense stand-in. NOT decided: exactness for manufactured solutions beyond "same quadrature", '
                     'solveEquationForFunction, degrees 4-5, FFT stages. The solver uses the first cell\'s half width for every cell (uniform radial breaks assumed by the code; the oracle mirrors this).'),
    'C15': dict(
        category='proof',
        technique='symbolic execution of the real quasi-neutrality pipeline (getModes, solveEquation, findPotential, layout changes) on a symbolic real density with the FFT replaced by the exact DFT (ntheta 4, 3 and 12; thorough also 2 and 6; twiddles in Q(i, sqrt 3) with sqrt3^2=3 as a solver constraint); z3 identities against an independent mode-by-mode reference',
        text='PARTIAL, in exact arithmetic and for ntheta in {4, 3, 12} (thorough also 2, 6; exact twiddle factors in Q(i) resp. Q(i, sqrt 3), so one even and one odd theta count, with and without a Nyquist mode): for all real densities the potential produced '
             'by density -> modes -> per-mode solve -> inverse transform equals the one computed mode by mode by an independent '
             'implementation (FFT-ordered mode numbers, m^2, inner Neumann condition for m=0 only, chi convention for the m=0 mode, '
             'adiabatic response on all other modes, kinetic electrons without it), on every rank of the listed process grids, and its '
             'imaginary part is identically zero. NOT decided: that fft/ifft round-trip to the identity (the DFT definition is the '
             'contract used), the solved pipeline for theta counts whose twiddle factors lie outside Q(i, sqrt 3) (for those the table of squared mode numbers of the real solver is compared with the FFT ordering, concretely, for every theta count up to 64, thorough 600, and the real float pipeline is compared with the float reference for theta counts 5 and 7, thorough also 9, 10, 16, on distributed grids after an earlier solve), the equilibrium as a fixed point of the complete time step.',
        design_ref='DESIGN.md 5 (C15)',
        note=TRUST + 'scipy.fftpack.fft/ifft by their definition (contract); spsolve exact on the concrete rational systems; rational n0, Te profiles '
                     'passed through the constructor keywords.'),
    'C16': dict(
        category='proof',
        technique='symbolic execution of the real DensityFinder / poisson_tools on every simulated rank with the whole distribution function symbolic (z3 Reals); linear real arithmetic queries',
        text='Bounded solver proof in exact reals for all distribution functions: on every rank of the simulated process grid, every '
             'local density entry equals the exact velocity integral of the spline interpolating f along v at the entry\'s global '
             '(r,theta,z) (independent exact weights = oracle collocation + oracle basis integrals) minus, for the perturbed density, '
             'the equilibrium at the global radius (exp/tanh/sqrt uninterpreted). Linearity, zero for the equilibrium and independence '
             'of the decomposition follow from that identity. Variants: another finder built before, finders on v spaces that no longer exist, profiles centred off the mid-radius, perturbation amplitude 0 with an arbitrary distribution, and a cold plasma whose tabulated equilibrium is exactly 0.0 in the velocity tails (that one decided by the real float run against the exact weights, since exp > 0 in the exact model).',
        design_ref='DESIGN.md 4 C16',
        note=TRUST + 'Bounds: extents (3..4,2,3), process grids {1,2}^2 (thorough {1,2,3}^2), listed v spline spaces. Complex storage not distinguished.'),
    'C17': dict(
        category='proof',
        technique='symbolic execution of the real diagnostic classes, Grid.getMin/getMax and DiagnosticCollector on every simulated rank with the whole field symbolic; z3 polynomial identities / min-max characterisation',
        text='Bounded solver proof in exact reals for all fields: the sum over the ranks (of one replica) of l2^2, l1, particle number and '
             'kinetic energy equals the serial trapezoid/rectangle quadrature of the assembled global field in every 4-D layout and every '
             'layout of the driver\'s 3-D swapper (replicated ones included); min/max reported at the drawing rank equal the global '
             'min/max for the whole grid and for every slice with one or two fixed indices (dimensions and indices forked by the solver; ranks without the '
             'slice contribute the neutral element); unit field gives the analytic volume factor; the collector stores step k in slot '
             'k mod saveStep and reduces to rank 0; the slot expression is decided in binary64 (round / int / true and floor division encoded exactly) for every double dt in [2^-7, 4] and up to 7 (thorough 12) accumulated steps.',
        design_ref='DESIGN.md 4 C17',
        note=TRUST + 'Bounds: extents 3^4 (min/max (3,2,3,2)), grids {1,2}^2 (thorough {1,2,3}^2). Not claimed: reduction-order rounding; '
                     'collector min/max exercised on a concrete exact field.'),
    'C18': dict(
        category='proof',
        technique='symbolic execution of the real Layout tables (unbounded extent), of the real checkpoint-selection statements on symbolic file names (digit-variable string order), of the real driver under recording stubs with symbolic times and clock, and of the real constants-file parser with symbolic values and solver-chosen key order; z3 queries',
        text='Partial claim. (a) For all extents, the write slices of p ranks tile each dataset dimension and the read slices of p\' ranks '
             'tile it too (p,p\'<=4, thorough 8), so a checkpoint can be read back under a different process count. (b) The statements that '
             'select the checkpoint in setupFromFile / Grid.loadFromFile, extracted from the current source and run on symbolic file names '
             'produced by the writer\'s own format expression, always select the largest time (times < 10^8, 2-3 files; file modification times arbitrary). (c) The real driver '
             'under recording stubs, symbolic start/end times, every saveStep<=3 (thorough 4), arbitrary clock, <=3 (6) iterations: no '
             'exception on any path, identical operator sequence in every iteration, the final time is checkpointed exactly once and no '
             'time twice, so a restart resumes at the last time reached and N + M steps equal N+M steps at the level of control flow. (d) The real get_constants / eval_expr on files with chains of symbolic expressions: for every order in which the keys are consumed (solver-chosen permutation, 6-key files) and all numeric root values, every constant equals its expression over the roots and absent constants keep their defaults; the text written by Constants.__str__ (what setupSave stores), read back by get_constants, reproduces every public constant for symbolic values (zero included) of six constants. (e) Concretely, on an in-memory stand-in for the h5py calls: the real writeH5Dataset on P simulated ranks stores the global field in the ordering of the layout written and records that ordering in the Layout attribute, and the real loadFromFile on a different process grid reproduces the field (latest and requested time); a restart builds the same coordinates and knots as the fresh set-up on a domain that is asymmetric in every direction.',
        design_ref='DESIGN.md 4 C18',
        note=TRUST + 'NOT decided: the h5py / HDF5 layer itself (C library without MPI-IO here; a stand-in takes its calls), the text-level round trip of float literals, an explicit rp entry (rp is derived from rMin/rMax), non-integer time steps. '
                     'Driver collaborators are stubs; dt=2.'),
    'C19': dict(
        category='translation_validation',
        technique='side-by-side symbolic execution of each numba/pythran source copy, and of a pyccel-semantics transform of the reference, with the reference kernel on the same symbolic inputs; per-path z3 equality of all outputs; replay on a scratch pyccel build',
        text='PARTIAL: only the last clause of the property ("the alternative numba/pythran source copies define the same functions with '
             'the same results") is decided. Every source copy is loaded from the working tree (numba decorators replaced by the '
             'identity) and each kernel family (general and uniform-cubic spline evaluation, initialisation functions, density '
             'kernels, v-parallel evaluation step, flux_advection) is executed symbolically next to the reference; z3 decides equality '
             'of all outputs and in-place results on every path; functions a copy does not define are reported. Of the main clause (the '
             'pyccel-compiled shared objects equal the interpreted source; the documented build succeeds) three things are decided: (1) '
             'each kernel module, transformed so that it behaves in Python as the generated Fortran does at three modelled divergences (D1 '
             'assignment to an array argument writes through to the caller; D2 a loop variable after a completed loop is one step past the '
             'last value; D3 a negative non-literal index does not wrap), equals the untouched module on every path of the same scenarios (solver); counter-models are replayed on a real '
             'scratch pyccel build against the interpreted module; (2) the scratch pyccel build of the five modules with the documented '
             'flags succeeds (after a control build); (3) build and source agree on two concrete float scenarios (many-sweeps implicit step; uniform-cubic kernels at points k*dx). The generated '
             'Fortran itself is NOT encoded: any other way in which a build could differ from its source is undecided.',
        design_ref='DESIGN.md 5 (C19) and 8',
        note=TRUST + 'No Fortran/LLVM-IR-to-SMT engine is available, so compiled artefacts are outside this claim except for the three modelled divergences; numba/pythran compilation '
                     'itself is not exercised (copies run as Python); poloidal steps and get_lagrange_vals of the copies are not exercised.'),
    'C20': dict(
        category='proof',
        technique='concolic symbolic execution of the real Python functions on z3 Int proxies (grid selection on symbolic maxima; the two set-up functions on a communicator with symbolic rank); per-path SMT queries (bounded)',
        text='Bounded solver proof: for every mpi_size in the tier bound, every feasible path of the real '
             'compute_2d_process_grid(_from_max) over symbolic maxima/grid sizes in [1,M] is enumerated and z3 shows the '
             'returned grid is a valid factorisation within the maxima, RuntimeError is raised only when no divisor pair '
             'fits, no other exception occurs and each path has a bounded number of decisions. Set-up wiring: in setupCylindricalGrid and setupFromFile (fresh run / restart, with and without a plot rank, first or last rank drawing) the grid handed to getLayoutHandler multiplies to the size of the communicator handed over with it, for every rank. Counter-models are replayed '
             'on the real code (grid function in floats; set-ups with the real layout manager on all simulated ranks) before being reported.',
        design_ref='DESIGN.md 4 C20',
        note=TRUST + 'Bounds: quick mpi_size<=32, maxima<=64; thorough mpi_size<=128, maxima<=256. Ratio comparison is '
                     'exact-rational (each path is cross-checked once against the float code).'),
}

NOT_APPLICABLE = {
}

ALL = ['C%02d' % i for i in range(1, 21)]


def main():
    checks = []
    for pid in ALL:
        if pid not in CLAIMED:
            continue
        c = CLAIMED[pid]
        checks.append(dict(
            property_id=pid,
            quick_cmd='./check %s --tier quick' % pid,
            thorough_cmd='./check %s --tier thorough' % pid,
            evidence_file='evidence/%s.json' % pid,
            replay_cmd_template='./check %s --replay {path}' % pid,
            engine='symx',
            level_claimed=dict(category=c['category'], text=c['text'], design_ref=c['design_ref']),
            level_note=c['note'],
            technique=c['technique'],
        ))
    na = []
    for pid in ALL:
        if pid in CLAIMED:
            continue
        na.append(dict(property_id=pid, reason=NOT_APPLICABLE.get(
            pid, 'not built yet in this session: solver-based harness planned in DESIGN.md section 4, not claimed until it exists')))
    man = dict(
        version=1,
        setup_cmd='./bootstrap.sh',
        hooks=dict(guard='PYGYRO_VERIF', enable='no source hooks: checks load /repo modules and inject stand-ins into module globals / sys.modules at run time',
                   baseline_off_cmd='cd /repo && /venv/bin/python -m pytest -ra -q -p no:cacheprovider --timeout=900 --continue-on-collection-errors',
                   source_commits=[], add_only=True),
        engines=[dict(name='symx', path='lib/symx.py', serves_properties=sorted(CLAIMED),
                      kind_free_text='concolic symbolic execution of the real Python code over z3 terms (Int / bit-vector / exact Real), '
                                     'with numpy/MPI models in lib/symnp.py, lib/symmpi.py, lib/numenv.py')],
        checks=checks,
        notes='Exit codes: 0 held / 1 confirmed VIOLATION (replayed on the real code) / 3 inconclusive or harness error. '
              'See DESIGN.md.',
        not_applicable=na,
    )
    with open(os.path.join(HERE, 'MANIFEST.json'), 'w') as f:
        json.dump(man, f, indent=1)
    print('MANIFEST.json: %d checks, %d not applicable' % (len(checks), len(na)))


if __name__ == '__main__':
    main()
